package main

import (
	"fmt"
	"os"
	"strings"

	"golang.org/x/tools/go/packages"
	"golang.org/x/tools/go/ssa"
	"golang.org/x/tools/go/ssa/ssautil"
)

func main() {
	pat := os.Args[1]
	fn := os.Args[2]
	cfg := &packages.Config{Mode: packages.NeedName | packages.NeedFiles | packages.NeedCompiledGoFiles | packages.NeedImports | packages.NeedTypes | packages.NeedTypesSizes | packages.NeedSyntax | packages.NeedTypesInfo, Dir: "/repo", BuildFlags: []string{"-tags=verif"}}
	pkgs, err := packages.Load(cfg, pat)
	if err != nil {
		panic(err)
	}
	prog, spkgs := ssautil.Packages(pkgs, ssa.GlobalDebug)
	for _, sp := range spkgs {
		if sp != nil {
			sp.Build()
		}
	}
	for f := range ssautil.AllFunctions(prog) {
		if strings.Contains(f.String(), fn) && f.Blocks != nil {
			var sb strings.Builder
			f.WriteTo(&sb)
			for _, l := range strings.Split(sb.String(), "\n") {
				if os.Getenv("SSADUMP_ALL") != "" || !strings.HasPrefix(strings.TrimSpace(l), ";") {
					fmt.Println(l)
				}
			}
		}
	}
}
