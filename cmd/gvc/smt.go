package main

// SMT-LIB text builder: declarations, assertions, sorts for Go types.

import (
	"fmt"
	"go/types"
	"os"
	"sort"
	"strconv"
	"strings"
)

// Builder accumulates the SMT-LIB script of one function under verification.
type Builder struct {
	decls           []string // in order
	asserts         []string
	declared        map[string]bool
	strLits         map[string]string // literal -> const name
	strOrder        []string
	typeIDs         map[string]int // concrete type string -> tag
	typeOrd         []string
	structDT        map[string]bool
	n               int
	events          *EventTable
	notes           map[string]bool // abstraction notes (unsupported constructs)
	termMode        int             // >0: define() returns the term itself (evaluation under a quantifier)
	freshInTermMode int
	defOf           map[string]int // defined constant -> index of its defining assertion
	symCache        map[int][]string
	NoSlice         bool
}

func NewBuilder(ev *EventTable) *Builder {
	b := &Builder{declared: map[string]bool{}, strLits: map[string]string{}, typeIDs: map[string]int{}, structDT: map[string]bool{}, events: ev, notes: map[string]bool{}}
	return b
}

func (b *Builder) note(format string, a ...any) { b.notes[fmt.Sprintf(format, a...)] = true }

func (b *Builder) fresh(prefix string) string {
	b.n++
	return fmt.Sprintf("%s!%d", prefix, b.n)
}

func q(name string) string {
	// quote a symbol if needed
	simple := true
	for _, r := range name {
		if !(r == '_' || r == '!' || r == '.' || r == '$' || r >= '0' && r <= '9' || r >= 'a' && r <= 'z' || r >= 'A' && r <= 'Z') {
			simple = false
			break
		}
	}
	if simple && name != "" && !(name[0] >= '0' && name[0] <= '9') {
		return name
	}
	name = strings.ReplaceAll(name, "|", "/")
	name = strings.ReplaceAll(name, "\\", "/")
	return "|" + name + "|"
}

func (b *Builder) declConst(name, sort string) string {
	qn := q(name)
	if !b.declared[qn] {
		if b.termMode > 0 && !strings.Contains(name, "#") { // (entry versions of heap arrays are named <array>#<epoch>: not fresh values)
			b.freshInTermMode++
			if os.Getenv("GVC_DEBUG") != "" {
				fmt.Fprintf(os.Stderr, "declConst in term mode: %s\n", name)
			}
		}
		b.declared[qn] = true
		b.decls = append(b.decls, fmt.Sprintf("(declare-const %s %s)", qn, sort))
	}
	return qn
}

func (b *Builder) declFun(name string, args []string, res string) string {
	qn := q(name)
	if !b.declared[qn] {
		b.declared[qn] = true
		b.decls = append(b.decls, fmt.Sprintf("(declare-fun %s (%s) %s)", qn, strings.Join(args, " "), res))
	}
	return qn
}

func (b *Builder) rawDecl(key, text string) {
	if !b.declared[key] {
		b.declared[key] = true
		b.decls = append(b.decls, text)
	}
}

func (b *Builder) assert(t string) { b.asserts = append(b.asserts, t) }

// define introduces a fresh constant equal to term (keeps terms small).
func (b *Builder) define(prefix, sort, term string) string {
	if b.termMode > 0 {
		return term
	}
	c := b.declConst(b.fresh(prefix), sort)
	b.assert(fmt.Sprintf("(= %s %s)", c, term))
	if b.defOf == nil {
		b.defOf = map[string]int{}
	}
	b.defOf[c] = len(b.asserts) - 1
	return c
}

// symbols extracts the identifiers occurring in an SMT term.
func symbols(t string) []string {
	var out []string
	i := 0
	for i < len(t) {
		c := t[i]
		switch {
		case c == '|':
			j := strings.IndexByte(t[i+1:], '|')
			if j < 0 {
				return out
			}
			out = append(out, t[i:i+j+2])
			i += j + 2
		case c == '(' || c == ')' || c == ' ' || c == '\n' || c == '\t':
			i++
		default:
			j := i
			for j < len(t) && t[j] != '(' && t[j] != ')' && t[j] != ' ' && t[j] != '|' && t[j] != '\n' {
				j++
			}
			out = append(out, t[i:j])
			i = j
		}
	}
	return out
}

// slice returns the indices of the assertions in the cone of influence of the given terms:
// definitions of every constant reachable from them, plus all non-definitional assertions.
func (b *Builder) slice(extra []string) []bool {
	keep := make([]bool, len(b.asserts))
	if b.NoSlice || b.defOf == nil {
		for i := range keep {
			keep[i] = true
		}
		return keep
	}
	isDef := make([]bool, len(b.asserts))
	for _, idx := range b.defOf {
		isDef[idx] = true
	}
	seen := map[string]bool{}
	var work []string
	push := func(t string) {
		for _, s := range symbols(t) {
			if !seen[s] {
				seen[s] = true
				work = append(work, s)
			}
		}
	}
	for _, e := range extra {
		push(e)
	}
	for i, a := range b.asserts {
		if !isDef[i] {
			keep[i] = true
			push(a)
		}
	}
	for len(work) > 0 {
		s := work[len(work)-1]
		work = work[:len(work)-1]
		if idx, ok := b.defOf[s]; ok && !keep[idx] {
			keep[idx] = true
			push(b.asserts[idx])
		}
	}
	return keep
}

func (b *Builder) strLit(s string) string {
	if c, ok := b.strLits[s]; ok {
		return c
	}
	name := fmt.Sprintf("str:%d:%s", len(b.strLits), sanitizeLit(s))
	c := b.declConst(name, "Str")
	b.strLits[s] = c
	b.strOrder = append(b.strOrder, s)
	return c
}

func sanitizeLit(s string) string {
	if len(s) > 24 {
		s = s[:24]
	}
	var sb strings.Builder
	for _, r := range s {
		if r == '_' || r == '-' || r == '.' || r == '/' || r == ' ' || r == ':' || r >= '0' && r <= '9' || r >= 'a' && r <= 'z' || r >= 'A' && r <= 'Z' {
			sb.WriteRune(r)
		} else {
			sb.WriteRune('?')
		}
	}
	return sb.String()
}

func (b *Builder) typeID(t types.Type) string {
	k := types.TypeString(t, nil)
	if id, ok := b.typeIDs[k]; ok {
		return strconv.Itoa(id)
	}
	id := len(b.typeIDs) + 1
	b.typeIDs[k] = id
	b.typeOrd = append(b.typeOrd, k)
	return strconv.Itoa(id)
}

const preamble = `(set-logic ALL)
(declare-sort Str 0)
(declare-sort Flt 0)
(declare-datatypes ((Slice 0)) (((mk_slice (s_base Int) (s_off Int) (s_len Int) (s_cap Int)))))
(declare-datatypes ((Iface 0)) (((mk_iface (i_tag Int) (i_val Int)))))
(declare-fun strlen (Str) Int)
(declare-const str_empty Str)
(assert (= (strlen str_empty) 0))
(declare-fun str_concat (Str Str) Str)
(declare-fun str_at (Str Int) Int)
(declare-fun str_lt (Str Str) Bool)
(declare-fun box_Str (Str) Int)
(declare-fun unbox_Str (Int) Str)
(declare-fun box_Flt (Flt) Int)
(declare-fun unbox_Flt (Int) Flt)
(declare-fun err_msg (Iface) Str)
(declare-const nil_iface Iface)
(assert (= nil_iface (mk_iface 0 0)))
(declare-const nil_slice Slice)
(assert (= nil_slice (mk_slice 0 0 0 0)))
`

// The axioms of the string / boxing functions are instantiated on the ground terms of the query
// (one round of syntactic triggering) instead of being asserted as quantified formulas, so that
// quantifier-free functions yield quantifier-free queries (and solver models).
//
//	strlen(s) >= 0;  strlen(s) = 0 => s = str_empty
//	strlen(str_concat(a,b)) = strlen(a)+strlen(b)
//	unbox_Str(box_Str(s)) = s;  unbox_Flt(box_Flt(s)) = s
func groundInstances(text string, seen map[string]bool) []string {
	var out []string
	add := func(key, inst string) {
		if !seen[key] {
			seen[key] = true
			out = append(out, inst)
		}
	}
	scan := func(fname string, arity int, gen func(args []string)) {
		pat := "(" + fname + " "
		from := 0
		for {
			i := strings.Index(text[from:], pat)
			if i < 0 {
				return
			}
			start := from + i + len(pat)
			args, end, ok := parseArgs(text, start, arity)
			from = from + i + 1
			if !ok {
				continue
			}
			_ = end
			bound := false
			for _, a := range args {
				if strings.Contains(a, "?") {
					bound = true
				}
			}
			if bound {
				continue
			}
			gen(args)
		}
	}
	scan("str_concat", 2, func(a []string) {
		t := "(str_concat " + a[0] + " " + a[1] + ")"
		add("cc:"+t, fmt.Sprintf("(= (strlen %s) (+ (strlen %s) (strlen %s)))", t, a[0], a[1]))
		add("sl:"+t, fmt.Sprintf("(and (>= (strlen %s) 0) (=> (= (strlen %s) 0) (= %s str_empty)))", t, t, t))
		add("sl:"+a[0], fmt.Sprintf("(and (>= (strlen %s) 0) (=> (= (strlen %s) 0) (= %s str_empty)))", a[0], a[0], a[0]))
		add("sl:"+a[1], fmt.Sprintf("(and (>= (strlen %s) 0) (=> (= (strlen %s) 0) (= %s str_empty)))", a[1], a[1], a[1]))
	})
	scan("strlen", 1, func(a []string) {
		add("sl:"+a[0], fmt.Sprintf("(and (>= (strlen %s) 0) (<= (strlen %s) 4611686018427387904) (=> (= (strlen %s) 0) (= %s str_empty)))", a[0], a[0], a[0], a[0]))
	})
	scan("box_Str", 1, func(a []string) {
		add("bs:"+a[0], fmt.Sprintf("(= (unbox_Str (box_Str %s)) %s)", a[0], a[0]))
	})
	scan("box_Flt", 1, func(a []string) {
		add("bf:"+a[0], fmt.Sprintf("(= (unbox_Flt (box_Flt %s)) %s)", a[0], a[0]))
	})
	return out
}

// parseArgs reads `arity` s-expressions starting at text[pos]; the application must close right after.
func parseArgs(text string, pos, arity int) ([]string, int, bool) {
	var args []string
	i := pos
	for k := 0; k < arity; k++ {
		for i < len(text) && text[i] == ' ' {
			i++
		}
		if i >= len(text) {
			return nil, 0, false
		}
		st := i
		switch text[i] {
		case '(':
			depth := 0
			for i < len(text) {
				if text[i] == '|' {
					j := strings.IndexByte(text[i+1:], '|')
					if j < 0 {
						return nil, 0, false
					}
					i += j + 2
					continue
				}
				if text[i] == '(' {
					depth++
				} else if text[i] == ')' {
					depth--
					if depth == 0 {
						i++
						break
					}
				}
				i++
			}
		case '|':
			j := strings.IndexByte(text[i+1:], '|')
			if j < 0 {
				return nil, 0, false
			}
			i += j + 2
		default:
			for i < len(text) && text[i] != ' ' && text[i] != ')' && text[i] != '(' {
				i++
			}
		}
		args = append(args, text[st:i])
	}
	for i < len(text) && text[i] == ' ' {
		i++
	}
	if i >= len(text) || text[i] != ')' {
		return nil, 0, false
	}
	return args, i, true
}

// Script renders the full query for one obligation.
func (b *Builder) Script(extra []string, wantModel bool) string {
	var sb strings.Builder
	if wantModel {
		sb.WriteString("(set-option :produce-models true)\n")
	}
	sb.WriteString(preamble)
	if b.events != nil {
		sb.WriteString(b.events.Decl())
	}
	for _, d := range b.decls {
		sb.WriteString(d)
		sb.WriteByte('\n')
	}
	// string literal facts
	if len(b.strOrder) > 0 {
		names := []string{"str_empty"}
		for _, s := range b.strOrder {
			if s == "" {
				sb.WriteString(fmt.Sprintf("(assert (= %s str_empty))\n", b.strLits[s]))
				continue
			}
			names = append(names, b.strLits[s])
			sb.WriteString(fmt.Sprintf("(assert (= (strlen %s) %d))\n", b.strLits[s], len(s)))
		}
		if len(names) > 1 {
			sb.WriteString("(assert (distinct " + strings.Join(names, " ") + "))\n")
		}
	}
	sb.WriteString("; --asserts--\n")
	seen := map[string]bool{}
	var ground []string
	keep := b.slice(extra)
	for i, a := range b.asserts {
		if !keep[i] {
			continue
		}
		sb.WriteString("(assert ")
		sb.WriteString(a)
		sb.WriteString(")\n")
		ground = append(ground, groundInstances(a, seen)...)
	}
	for _, e := range extra {
		ground = append(ground, groundInstances(e, seen)...)
	}
	for _, sl := range b.strOrder {
		ground = append(ground, groundInstances("(strlen "+b.strLits[sl]+")", seen)...)
	}
	for _, g := range ground {
		sb.WriteString("(assert ")
		sb.WriteString(g)
		sb.WriteString(")\n")
	}
	for _, e := range extra {
		sb.WriteString("(assert ")
		sb.WriteString(e)
		sb.WriteString(")\n")
	}
	// redundant but helpful: an asserted name whose definition is a conjunction implies its conjuncts; the conjuncts
	// that are themselves defined names (reachability conditions of earlier blocks, which carry the loop invariants)
	// are asserted directly, so that the quantifiers inside them are active from the start
	for _, c := range b.impliedNamesIfEnabled(extra) {
		sb.WriteString("(assert ")
		sb.WriteString(c)
		sb.WriteString(")\n")
	}
	sb.WriteString("(check-sat)\n")
	return sb.String()
}

// ---------------------------------------------------------------------------
// sorts

func mangleType(t types.Type) string {
	s := types.TypeString(t, func(p *types.Package) string {
		path := p.Path()
		path = strings.TrimPrefix(path, "github.com/sdcio/data-server/pkg/")
		path = strings.TrimPrefix(path, "github.com/sdcio/")
		return path
	})
	return s
}

// sortOf maps a Go type to an SMT sort, declaring struct datatypes on demand.
func (b *Builder) sortOf(t types.Type) string {
	if tp, ok := t.(*types.TypeParam); ok {
		// a value of type parameter S with the constraint ~[]E is a slice (the bodies of instantiation wrappers of
		// generic library functions are typed over the parameters)
		if ct := coreOfTypeParam(tp); ct != nil {
			if _, isParam := ct.(*types.TypeParam); !isParam {
				return b.sortOf(ct)
			}
		}
	}
	switch u := t.Underlying().(type) {
	case *types.Basic:
		switch {
		case u.Info()&types.IsBoolean != 0:
			return "Bool"
		case u.Info()&types.IsInteger != 0:
			return "Int"
		case u.Info()&types.IsString != 0:
			return "Str"
		case u.Info()&types.IsFloat != 0, u.Info()&types.IsComplex != 0:
			return "Flt"
		case u.Kind() == types.UnsafePointer, u.Kind() == types.UntypedNil:
			return "Int"
		}
		return "Int"
	case *types.Pointer, *types.Map, *types.Chan, *types.Signature:
		return "Int"
	case *types.Interface:
		return "Iface"
	case *types.Slice:
		return "Slice"
	case *types.Array:
		return "(Array Int " + b.sortOf(u.Elem()) + ")"
	case *types.Struct:
		return b.structSort(t, u)
	case *types.Tuple:
		return "Int" // never used as a value
	case *types.TypeParam:
		return "Int"
	}
	return "Int"
}

func (b *Builder) structSort(t types.Type, u *types.Struct) string {
	name := "S:" + mangleType(t)
	qn := q(name)
	if b.structDT[qn] {
		return qn
	}
	b.structDT[qn] = true
	var fields []string
	for i := 0; i < u.NumFields(); i++ {
		fs := b.sortOf(u.Field(i).Type())
		fields = append(fields, fmt.Sprintf("(%s %s)", q(fmt.Sprintf("%s.%s", name, u.Field(i).Name())), fs))
	}
	ctor := q("mk:" + name)
	b.decls = append(b.decls, fmt.Sprintf("(declare-datatypes ((%s 0)) (((%s %s))))", qn, ctor, strings.Join(fields, " ")))
	return qn
}

func (b *Builder) structCtor(t types.Type) string { return q("mk:S:" + mangleType(t)) }
func (b *Builder) structAcc(t types.Type, field string) string {
	return q("S:" + mangleType(t) + "." + field)
}

// zero value term for a type
func (b *Builder) zero(t types.Type) string {
	switch u := t.Underlying().(type) {
	case *types.Basic:
		switch {
		case u.Info()&types.IsBoolean != 0:
			return "false"
		case u.Info()&types.IsInteger != 0:
			return "0"
		case u.Info()&types.IsString != 0:
			return "str_empty"
		case u.Info()&types.IsFloat != 0, u.Info()&types.IsComplex != 0:
			return b.declConst("flt_zero", "Flt")
		}
		return "0"
	case *types.Interface:
		return "(mk_iface 0 0)"
	case *types.Slice:
		return "(mk_slice 0 0 0 0)"
	case *types.Array:
		return fmt.Sprintf("((as const %s) %s)", b.sortOf(t), b.zero(u.Elem()))
	case *types.Struct:
		b.sortOf(t)
		var fs []string
		for i := 0; i < u.NumFields(); i++ {
			fs = append(fs, b.zero(u.Field(i).Type()))
		}
		if len(fs) == 0 {
			return b.structCtor(t)
		}
		return "(" + b.structCtor(t) + " " + strings.Join(fs, " ") + ")"
	}
	return "0"
}

// intRange returns (lo, hi, ok) for sized integer types.
func intRange(t types.Type) (string, string, bool) {
	u, ok := t.Underlying().(*types.Basic)
	if !ok || u.Info()&types.IsInteger == 0 {
		return "", "", false
	}
	switch u.Kind() {
	case types.Int8:
		return "(- 128)", "127", true
	case types.Int16:
		return "(- 32768)", "32767", true
	case types.Int32:
		return "(- 2147483648)", "2147483647", true
	case types.Int, types.Int64:
		return "(- 9223372036854775808)", "9223372036854775807", true
	case types.Uint8:
		return "0", "255", true
	case types.Uint16:
		return "0", "65535", true
	case types.Uint32:
		return "0", "4294967295", true
	case types.Uint, types.Uint64, types.Uintptr:
		return "0", "18446744073709551615", true
	}
	return "", "", false
}

func smtInt(v int64) string {
	if v < 0 {
		if v == -9223372036854775808 {
			return "(- 9223372036854775808)"
		}
		return fmt.Sprintf("(- %d)", -v)
	}
	return strconv.FormatInt(v, 10)
}

func and(ts ...string) string {
	var out []string
	for _, t := range ts {
		if t == "true" || t == "" {
			continue
		}
		if t == "false" {
			return "false"
		}
		out = append(out, t)
	}
	switch len(out) {
	case 0:
		return "true"
	case 1:
		return out[0]
	}
	return "(and " + strings.Join(out, " ") + ")"
}

func or(ts ...string) string {
	var out []string
	for _, t := range ts {
		if t == "false" || t == "" {
			continue
		}
		if t == "true" {
			return "true"
		}
		out = append(out, t)
	}
	switch len(out) {
	case 0:
		return "false"
	case 1:
		return out[0]
	}
	return "(or " + strings.Join(out, " ") + ")"
}

func not(t string) string {
	if t == "true" {
		return "false"
	}
	if t == "false" {
		return "true"
	}
	return "(not " + t + ")"
}

func implies(a, b string) string {
	if a == "true" {
		return b
	}
	if a == "false" || b == "true" {
		return "true"
	}
	return "(=> " + a + " " + b + ")"
}

func ite(c, a, b string) string {
	if c == "true" {
		return a
	}
	if c == "false" {
		return b
	}
	if a == b {
		return a
	}
	return "(ite " + c + " " + a + " " + b + ")"
}

func eq(a, b string) string { return "(= " + a + " " + b + ")" }

func sortedKeys[V any](m map[string]V) []string {
	ks := make([]string, 0, len(m))
	for k := range m {
		ks = append(ks, k)
	}
	sort.Strings(ks)
	return ks
}

// ---------------------------------------------------------------------------
// events of the ghost trace

type EventTable struct {
	names []string
	args  map[string][]string // event -> arg sorts
}

func NewEventTable() *EventTable {
	e := &EventTable{args: map[string][]string{}}
	e.Add("Send", []string{"Int", "Int"})   // built in: channel send (channel, value)
	e.Add("Called", []string{"Int", "Int"}) // built in (contracts with `callevents`): call of a listed callee (its number in the list, from 1; the chosen argument)
	e.Add("Recv", []string{"Int", "Int"})   // built in (contracts with `chanevents`): value received in a select (channel, value)
	return e
}

func (e *EventTable) Add(name string, sorts []string) {
	if _, ok := e.args[name]; ok {
		return
	}
	e.names = append(e.names, name)
	e.args[name] = sorts
}

func (e *EventTable) Decl() string {
	var ctors []string
	for _, n := range e.names {
		var fs []string
		for i, s := range e.args[n] {
			fs = append(fs, fmt.Sprintf("(%s %s)", fmt.Sprintf("ev_%s_%d", n, i), s))
		}
		if len(fs) == 0 {
			ctors = append(ctors, "("+"ev_"+n+")")
		} else {
			ctors = append(ctors, "("+"ev_"+n+" "+strings.Join(fs, " ")+")")
		}
	}
	ctors = append(ctors, "(ev_none)")
	return "(declare-datatypes ((Event 0)) ((" + strings.Join(ctors, " ") + ")))\n"
}

// cardFn declares the cardinality function of key sets (Array K Bool) with the axioms a counting loop needs.
func (b *Builder) cardFn(ks string) string {
	fn := b.declFun("card:"+ks, []string{"(Array " + ks + " Bool)"}, "Int")
	b.rawDecl("cardax:"+ks, fmt.Sprintf("(assert (forall ((s (Array %s Bool))) (! (and (>= (%s s) 0) (=> (= (%s s) 0) (= s ((as const (Array %s Bool)) false)))) :pattern ((%s s)) :qid e6_smt_696)))\n(assert (= (%s ((as const (Array %s Bool)) false)) 0))\n"+
		"(assert (forall ((s (Array %s Bool)) (k %s)) (! (= (%s (store s k true)) (+ (%s s) (ite (select s k) 0 1))) :pattern ((%s (store s k true))) :qid e7_smt_697)))", ks, fn, fn, ks, fn, fn, ks, ks, ks, fn, fn, fn))
	return fn
}

// impliedNames: defined Bool names that are true whenever all of the given terms are true (closure over conjunctions).
func (b *Builder) impliedNames(asserted []string) []string {
	var out []string
	seen := map[string]bool{}
	var visit func(term string, depth int)
	visit = func(term string, depth int) {
		term = strings.TrimSpace(term)
		if depth > 200 {
			return
		}
		if strings.HasPrefix(term, "(and ") && strings.HasSuffix(term, ")") {
			for _, a := range topLevelArgs(term[5 : len(term)-1]) {
				visit(a, depth+1)
			}
			return
		}
		if strings.ContainsAny(term, "() ") {
			return
		}
		idx, ok := b.defOf[term]
		if !ok || seen[term] {
			return
		}
		seen[term] = true
		if depth > 0 {
			out = append(out, term)
		}
		def := b.asserts[idx] // (= name body)
		pre := "(= " + term + " "
		if strings.HasPrefix(def, pre) && strings.HasSuffix(def, ")") {
			visit(def[len(pre):len(def)-1], depth+1)
		}
	}
	for _, a := range asserted {
		visit(a, 0)
	}
	return out
}

// topLevelArgs splits a sequence of s-expressions.
func topLevelArgs(s string) []string {
	var out []string
	depth, start := 0, -1
	inBar := false
	for i := 0; i < len(s); i++ {
		c := s[i]
		if c == '|' {
			inBar = !inBar
			if start < 0 {
				start = i
			}
			continue
		}
		if inBar {
			continue
		}
		switch c {
		case '(':
			if depth == 0 && start < 0 {
				start = i
			}
			depth++
		case ')':
			depth--
			if depth == 0 && start >= 0 && s[start] == '(' {
				out = append(out, s[start:i+1])
				start = -1
			}
		case ' ', '\n', '\t':
			if depth == 0 && start >= 0 {
				out = append(out, s[start:i])
				start = -1
			}
		default:
			if depth == 0 && start < 0 {
				start = i
			}
		}
	}
	if start >= 0 && depth == 0 {
		out = append(out, s[start:])
	}
	return out
}

func (b *Builder) impliedNamesIfEnabled(extra []string) []string {
	if os.Getenv("GVC_FLATTEN") == "" {
		return nil
	}
	return b.impliedNames(extra)
}

// coreOfTypeParam: the single underlying type all terms of the constraint agree on, nil when there is none.
func coreOfTypeParam(tp *types.TypeParam) types.Type {
	iface, ok := tp.Constraint().Underlying().(*types.Interface)
	if !ok {
		return nil
	}
	var core types.Type
	for i := 0; i < iface.NumEmbeddeds(); i++ {
		var terms []types.Type
		switch e := iface.EmbeddedType(i).(type) {
		case *types.Union:
			for k := 0; k < e.Len(); k++ {
				terms = append(terms, e.Term(k).Type())
			}
		default:
			terms = append(terms, e)
		}
		for _, tt := range terms {
			u := tt.Underlying()
			if _, isIface := u.(*types.Interface); isIface {
				continue
			}
			if core == nil {
				core = u
			} else if !sameKind(core, u) {
				return nil
			}
		}
	}
	return core
}

func sameKind(a, b types.Type) bool {
	switch a.(type) {
	case *types.Slice:
		_, ok := b.(*types.Slice)
		return ok
	case *types.Map:
		_, ok := b.(*types.Map)
		return ok
	case *types.Pointer:
		_, ok := b.(*types.Pointer)
		return ok
	}
	return types.Identical(a, b)
}
