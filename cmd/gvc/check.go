package main

// Property checks: select functions under contract, discharge obligations, report, write evidence.

import (
	"encoding/json"
	"flag"
	"fmt"
	"os"
	"path/filepath"
	"sort"
	"strconv"
	"strings"
	"sync"
	"time"
)

type KnownFinding struct {
	Property   string `json:"property"`
	Status     string `json:"status"` // known | fixed
	Obligation string `json:"obligation"`
	Excuse     string `json:"excuse,omitempty"`
	What       string `json:"what"`
	Commit     string `json:"commit,omitempty"`
	Replay     string `json:"replay,omitempty"`
}

type UnclaimedEntry struct {
	Obligation string `json:"obligation"` // base name, or prefix ending in '*'
	Class      string `json:"class"`
	Reason     string `json:"reason"`
}

type LockFile struct {
	Properties map[string][]string `json:"properties"` // property -> mandatory obligation base names
}

func readJSON(path string, v any) error {
	data, err := os.ReadFile(path)
	if err != nil {
		return err
	}
	return json.Unmarshal(data, v)
}

func loadKnownFindings() []KnownFinding {
	var kf []KnownFinding
	readJSON(filepath.Join(verifDir, "known_findings.json"), &kf)
	return kf
}

func loadUnclaimed() []UnclaimedEntry {
	var u []UnclaimedEntry
	readJSON(filepath.Join(verifDir, "unclaimed.json"), &u)
	return u
}

func loadLock() *LockFile {
	l := &LockFile{Properties: map[string][]string{}}
	readJSON(filepath.Join(verifDir, "obligations.lock.json"), l)
	if l.Properties == nil {
		l.Properties = map[string][]string{}
	}
	return l
}

func matchUnclaimed(u []UnclaimedEntry, base string) *UnclaimedEntry {
	for i := range u {
		p := u[i].Obligation
		if p == base || (strings.HasSuffix(p, "*") && strings.HasPrefix(base, strings.TrimSuffix(p, "*"))) {
			return &u[i]
		}
	}
	return nil
}

func hasProp(props []string, p string) bool {
	for _, x := range props {
		if x == p {
			return true
		}
	}
	return false
}

func contractServes(fc *FuncContract, prop string) bool {
	if hasProp(fc.Props, prop) {
		return true
	}
	for _, c := range fc.Ensures {
		if hasProp(c.Props, prop) {
			return true
		}
	}
	for _, cs := range fc.Invariants {
		for _, c := range cs {
			if hasProp(c.Props, prop) {
				return true
			}
		}
	}
	return false
}

type PropertyRun struct {
	Prop         string
	Funcs        []string
	FnErrors     map[string]string
	Outcomes     []OblOutcome // claimed obligations
	Canaries     []OblOutcome
	Unclaimed    []OblOutcome
	UnclaimedWhy map[string]*UnclaimedEntry
	Notes        []string
	Trusted      map[string]bool
	Requires     []string
	SolverSecs   float64
	Abstracted   []string
}

func isMandatoryKind(k string) bool { return k == "ensures" || k == "lemma" }

// runProperty generates and discharges all obligations serving a property.
func runProperty(P *Program, DB *ContractDB, prop string, timeoutS, seed int, allSolvers bool, wd string, kfs []KnownFinding, unclaimed []UnclaimedEntry) *PropertyRun {
	pr := &PropertyRun{Prop: prop, FnErrors: map[string]string{}, Trusted: map[string]bool{}, UnclaimedWhy: map[string]*UnclaimedEntry{}}
	excuses := map[string]string{}
	for _, k := range kfs {
		if k.Status == "known" && k.Excuse != "" {
			excuses[k.Obligation] = k.Excuse
		}
	}
	var keys []string
	for k, fc := range DB.Funcs {
		if fc.Kind == "func" && fc.Trusted == "" && contractServes(fc, prop) {
			keys = append(keys, k)
		}
	}
	sort.Strings(keys)
	pr.Funcs = keys
	var claimed, canaries, uncl []*Obligation
	for _, k := range keys {
		fc := DB.Funcs[k]
		fr := VerifyFuncX(P, DB, fc, true, excuses)
		if fr.Err != nil {
			pr.FnErrors[k] = fr.Err.Error()
			continue
		}
		for _, n := range fr.Notes {
			pr.Notes = append(pr.Notes, k+": "+n)
		}
		for _, tr := range fr.Trusted {
			pr.Trusted[tr] = true
		}
		for _, r := range fc.Requires {
			pr.Requires = append(pr.Requires, fmt.Sprintf("%s requires %s: %s", k, r.Name, r.Raw))
		}
		for _, o := range fr.Obls {
			if !hasProp(o.Props, prop) {
				continue
			}
			if o.Kind == "canary" {
				canaries = append(canaries, o)
				continue
			}
			if u := matchUnclaimed(unclaimed, o.Base()); u != nil {
				uncl = append(uncl, o)
				pr.UnclaimedWhy[o.Base()] = u
				continue
			}
			claimed = append(claimed, o)
		}
	}
	for _, l := range DB.Lemmas {
		if !hasProp(l.Props, prop) {
			continue
		}
		fr := VerifyLemma(P, DB, l)
		if fr.Err != nil {
			pr.FnErrors["lemma."+l.Name] = fr.Err.Error()
			continue
		}
		pr.Funcs = append(pr.Funcs, "lemma."+l.Name)
		for _, o := range fr.Obls {
			if u := matchUnclaimed(unclaimed, o.Base()); u != nil {
				uncl = append(uncl, o)
				pr.UnclaimedWhy[o.Base()] = u
				continue
			}
			claimed = append(claimed, o)
		}
	}
	t0 := time.Now()
	workers := 10
	pr.Outcomes = SolveAll(claimed, wd, timeoutS, seed, workers, allSolvers)
	pr.Canaries = SolveAll(canaries, wd, timeoutS, seed, workers, false)
	_ = t0
	for _, oc := range pr.Outcomes {
		pr.SolverSecs += oc.Res.Seconds
	}
	// unclaimed obligations are not run in the quick tier
	for _, o := range uncl {
		pr.Unclaimed = append(pr.Unclaimed, OblOutcome{O: o})
	}
	return pr
}

type violation struct {
	Obligation string
	Detail     string
	ReplayPath string
	FoundInput bool
}

func cmdCheck(args []string) int {
	fs := flag.NewFlagSet("check", flag.ExitOnError)
	prop := fs.String("p", "", "property id")
	tier := fs.String("tier", "quick", "quick|thorough")
	fs.Parse(args)
	if *prop == "" {
		fmt.Fprintln(os.Stderr, "check: -p required")
		return 2
	}
	if t := os.Getenv("VERIF_TIER"); t == "quick" || t == "thorough" {
		*tier = t
	}
	seed := 0
	if s := os.Getenv("VERIF_SEED"); s != "" {
		if v, err := strconv.Atoi(s); err == nil {
			seed = v
		}
	}
	start := time.Now()
	wd := workDir()
	defer os.RemoveAll(wd)
	P, DB, err := loadAll(nil)
	if err != nil {
		fmt.Printf("gvc: cannot load /repo or its contracts: %v\n", err)
		// fail closed: the verifier did not accept the obligations
		return reportLoadFailure(*prop, *tier, seed, err, start)
	}
	kfs := loadKnownFindings()
	unclaimed := loadUnclaimed()
	lock := loadLock()
	timeoutS := 20
	all := false
	if *tier == "thorough" {
		timeoutS = 60
		all = true
	}
	pr := runProperty(P, DB, *prop, timeoutS, seed, all, wd, kfs, unclaimed)

	var viols []violation
	// functions that could not be translated: fail closed
	for _, k := range sortedKeys(pr.FnErrors) {
		viols = append(viols, violation{Obligation: k + "#translate", Detail: pr.FnErrors[k]})
	}
	present := map[string]int{}
	discharged := 0
	var secs float64
	machinery := false
	for _, oc := range pr.Outcomes {
		present[oc.O.Base()]++
		secs += oc.Res.Seconds
		if oc.Res.Disagree {
			fmt.Printf("gvc: solver disagreement on %s: %v\n", oc.O.Name(), oc.Res.Answers)
			machinery = true
			continue
		}
		if oc.Res.Status == "error" {
			fmt.Printf("gvc: every solver rejected the query of %s (generator defect): %s\n", oc.O.Name(), truncate(oc.Res.Detail, 300))
			machinery = true
			continue
		}
		if oc.OK {
			discharged++
			continue
		}
		if oc.O.Kind == "vacuity" {
			// a vacuity guard that is not sat: the precondition became contradictory or a return unreachable
			viols = append(viols, violation{Obligation: oc.O.Name(), Detail: "vacuity guard not satisfiable: " + oc.Res.Status})
			continue
		}
		viols = append(viols, violation{Obligation: oc.O.Name(), Detail: oc.Res.Status})
	}
	// thorough: extra seeds (brittleness). A refutation under another seed is a violation; a timeout is a note.
	seedSensitive = nil
	if *tier == "thorough" && len(viols) == 0 && !machinery {
		for _, s2 := range []int{seed + 1, seed + 2} {
			var obls []*Obligation
			for _, oc := range pr.Outcomes {
				obls = append(obls, oc.O)
			}
			for _, oc := range SolveAll(obls, wd, timeoutS, s2, 10, false) {
				secs += oc.Res.Seconds
				if oc.OK {
					continue
				}
				if oc.Res.Status == "sat" && oc.O.Expect != "sat" {
					// a refutation under another seed contradicts the proof: that is a verdict
					viols = append(viols, violation{Obligation: oc.O.Name(), Detail: fmt.Sprintf("%s under solver seed %d", oc.Res.Status, s2)})
					continue
				}
				// decided with the first seed, undecided with this one: the obligation stays discharged, the instability is noted
				seedSensitive = append(seedSensitive, fmt.Sprintf("%s: %s under solver seed %d", oc.O.Name(), oc.Res.Status, s2))
				fmt.Printf("note: %s is seed-sensitive (%s under solver seed %d); it was decided with the first seed\n", oc.O.Name(), oc.Res.Status, s2)
			}
		}
	}
	// locked mandatory obligations must still exist
	for _, base := range lock.Properties[*prop] {
		if present[base] == 0 {
			if u := matchUnclaimed(unclaimed, base); u != nil {
				continue
			}
			already := false
			for _, v := range viols {
				if strings.HasPrefix(base, strings.TrimSuffix(v.Obligation, "#translate")) {
					already = true
				}
			}
			if !already {
				viols = append(viols, violation{Obligation: base, Detail: "locked obligation is no longer generated (function, clause or contract missing)"})
			}
		}
	}
	// known findings: canaries
	canarySat := map[string]bool{}
	canarySeen := map[string]bool{}
	for _, oc := range pr.Canaries {
		canarySeen[oc.O.Base()] = true
		if oc.Res.Status == "sat" {
			canarySat[oc.O.Base()] = true
		}
	}
	for _, k := range kfs {
		if k.Property != *prop || k.Status != "known" {
			continue
		}
		cb := strings.Replace(k.Obligation, "#ensures:", "#canary:", 1)
		if canarySat[cb] {
			fmt.Printf("KNOWN-FINDING: property=%s %s %s\n", *prop, k.Obligation, k.What)
		} else if canarySeen[cb] {
			fmt.Printf("note: known finding %s is no longer reproducible by the verifier (excused region not refutable)\n", k.Obligation)
		}
	}

	// replay + report
	exit := 0
	replayDir := filepath.Join(verifDir, "replays", *prop)
	if len(viols) > 0 {
		os.MkdirAll(replayDir, 0o755)
	}
	byName := map[string]OblOutcome{}
	for _, oc := range pr.Outcomes {
		byName[oc.O.Name()] = oc
	}
	reg := loadReplayRegistry()
	// models of refuted obligations: at most three per function (a function that no longer fits its contract fails
	// dozens of obligations for one reason), extracted in parallel
	models := map[string]string{}
	{
		var mu sync.Mutex
		var wg sync.WaitGroup
		perFn := map[string]int{}
		for i := range viols {
			oc, ok := byName[viols[i].Obligation]
			if !ok || oc.Res.Status != "sat" || perFn[oc.O.Fn] >= 3 {
				continue
			}
			perFn[oc.O.Fn]++
			wg.Add(1)
			go func(oc OblOutcome) {
				defer wg.Done()
				m := GetModel(wd, oc.O.Name(), oc.O.B.Script([]string{oc.O.Reach, not(oc.O.Goal)}, false), 10)
				mu.Lock()
				models[oc.O.Name()] = m
				mu.Unlock()
			}(oc)
		}
		wg.Wait()
	}
	for i := range viols {
		v := &viols[i]
		path := filepath.Join(replayDir, sanitizeFile(v.Obligation)+".json")
		rec := map[string]any{"property": *prop, "obligation": v.Obligation, "verifier_status": v.Detail}
		if oc, ok := byName[v.Obligation]; ok {
			rec["answers"] = oc.Res.Answers
			rec["position"] = oc.O.Pos
			if oc.O.Clause != nil {
				rec["clause"] = oc.O.Clause.Raw
				rec["clause_where"] = oc.O.Clause.Where
			}
			script := oc.O.B.Script([]string{oc.O.Reach, not(oc.O.Goal)}, false)
			if oc.Res.Status == "sat" {
				m, have := models[oc.O.Name()]
				if !have {
					m = "(model not extracted: more than three refuted obligations in this function)"
				}
				if len(m) > 60000 {
					m = m[:60000] + "\n...truncated"
				}
				rec["model"] = m
			} else {
				rec["solver_output"] = truncate(oc.Res.Detail, 4000)
			}
			rec["smt_query_bytes"] = len(script)
			// replay on the real code
			rr := runReplay(reg, oc.O, *prop, wd)
			if rr != nil {
				rec["replay"] = rr
				if rr.Failed {
					v.FoundInput = true
				}
			}
		}
		if strings.HasSuffix(v.Obligation, "#translate") {
			// the contract no longer fits the function (e.g. it names a call the function does not make any more):
			// look for a failing input of the function among the inputs of its adapter
			fnKey := strings.TrimSuffix(v.Obligation, "#translate")
			for _, a := range findAdapters(reg, fnKey) {
				if !hasProp(a.Properties, *prop) {
					continue
				}
				res := parseAdapter(runAdapter(a, wd), fnKey, "")
				res.Adapter = a.File + ":" + a.Test
				res.Bound = a.Bound
				if _, have := rec["replay"]; !have || res.Failed {
					rec["replay"] = res
				}
				if res.Failed {
					v.FoundInput = true
					break
				}
			}
		}
		data, _ := json.MarshalIndent(rec, "", " ")
		os.WriteFile(path, data, 0o644)
		v.ReplayPath = path
		line := fmt.Sprintf("VIOLATION property=%s replay=%s", *prop, path)
		if !v.FoundInput {
			line += " no-failing-input-found"
		}
		fmt.Printf("failed obligation: %s (%s)\n", v.Obligation, v.Detail)
		fmt.Println(line)
		exit = 1
	}
	if machinery && exit == 0 {
		exit = 2
	}
	var standins []map[string]any
	if exit == 0 {
		// bounded stand-ins / executable contracts on the real code: all of them in the thorough tier, in the quick tier
		// only those registered as `quick` (they stand in for code outside the verified subset)
		standins = runStandins(reg, pr, *prop, wd, *tier != "thorough")
		for _, s := range standins {
			if br, _ := s["adapter_broken"].(bool); br {
				// an adapter that does not build or crashes (e.g. after a refactoring of the code it exercises) decides
				// nothing: a machinery failure in the thorough tier, a printed note in the quick tier
				if *tier == "thorough" {
					exit = 2
				}
			}
			if kn, _ := s["known_finding_inputs"].(int); kn > 0 {
				for _, k := range kfs {
					if k.Property == *prop && k.Status == "known" && k.Excuse == "" && strings.HasPrefix(k.Obligation, fmt.Sprint(s["function"])+"#") {
						fmt.Printf("KNOWN-FINDING: property=%s %s %s\n", *prop, k.Obligation, k.What)
					}
				}
			}
			if f, _ := s["failed"].(bool); f {
				os.MkdirAll(replayDir, 0o755)
				path := filepath.Join(replayDir, "standin-"+sanitizeFile(fmt.Sprint(s["function"]))+".json")
				data, _ := json.MarshalIndent(s, "", " ")
				os.WriteFile(path, data, 0o644)
				fmt.Printf("VIOLATION property=%s replay=%s\n", *prop, path)
				exit = 1
			}
		}
	}
	if *tier == "thorough" && exit == 0 {
		// must-fail corpus
		if rc := runMutantsFor(*prop, wd); rc != 0 {
			exit = 2
		}
	}
	writeEvidence(pr, *prop, *tier, seed, discharged, len(viols), secs, time.Since(start).Seconds(), standins, kfs)
	fmt.Printf("property %s: %d functions under contract, %d obligations, %d discharged, %d failed, %d unclaimed, solver %.1fs, wall %.1fs\n",
		*prop, len(pr.Funcs), len(pr.Outcomes), discharged, len(viols), len(pr.Unclaimed), secs, time.Since(start).Seconds())
	return exit
}

func truncate(s string, n int) string {
	if len(s) > n {
		return s[:n] + "...truncated"
	}
	return s
}

func reportLoadFailure(prop, tier string, seed int, err error, start time.Time) int {
	replayDir := filepath.Join(verifDir, "replays", prop)
	os.MkdirAll(replayDir, 0o755)
	path := filepath.Join(replayDir, "load-failure.json")
	data, _ := json.MarshalIndent(map[string]any{"property": prop, "obligation": "load", "error": err.Error()}, "", " ")
	os.WriteFile(path, data, 0o644)
	// a broken build or contract file is a machinery failure, not a property violation
	return 2
}

// seedSensitive: obligations decided with the first seed and undecided with another one (thorough tier)
var seedSensitive []string

func writeEvidence(pr *PropertyRun, prop, tier string, seed, discharged, nviol int, solverSecs, wall float64, standins []map[string]any, kfs []KnownFinding) {
	var per []map[string]any
	backends := map[string]int{}
	for _, oc := range pr.Outcomes {
		per = append(per, map[string]any{"name": oc.O.Name(), "status": oc.Res.Status, "expected": oc.O.Expect, "backend": oc.Res.Backend, "seconds": round3(oc.Res.Seconds)})
		backends[oc.Res.Backend]++
	}
	var samples []map[string]any
	for _, oc := range pr.Outcomes {
		if oc.O.Kind == "ensures" && len(samples) < 4 {
			s := map[string]any{"obligation": oc.O.Name(), "position": oc.O.Pos, "goal_smt": truncate(oc.O.Goal, 600), "status": oc.Res.Status}
			if oc.O.Clause != nil {
				s["clause"] = oc.O.Clause.Raw
			}
			samples = append(samples, s)
		}
	}
	for _, oc := range pr.Outcomes {
		if oc.O.Kind != "ensures" && oc.O.Kind != "vacuity" && len(samples) < 6 {
			samples = append(samples, map[string]any{"obligation": oc.O.Name(), "position": oc.O.Pos, "goal_smt": truncate(oc.O.Goal, 300), "status": oc.Res.Status})
		}
	}
	if len(samples) == 0 {
		samples = append(samples, map[string]any{"note": "no obligations generated"})
	}
	trusted := []string{}
	for k := range pr.Trusted {
		trusted = append(trusted, k)
	}
	sort.Strings(trusted)
	var uncl []map[string]any
	for _, oc := range pr.Unclaimed {
		u := pr.UnclaimedWhy[oc.O.Base()]
		uncl = append(uncl, map[string]any{"obligation": oc.O.Name(), "class": u.Class, "reason": u.Reason})
	}
	var known []string
	for _, k := range kfs {
		if k.Property == prop {
			known = append(known, fmt.Sprintf("%s: %s %s", k.Status, k.Obligation, k.What))
		}
	}
	assumptions := []string{
		"sequential semantics: locks, wait groups and semaphores are no-ops; goroutines started with `go` are not executed",
		"termination is proved only for the loops that carry a variant (`loop N decreases`); range loops over slices and maps end by construction, every other for loop is listed below as not claimed (partial correctness)",
		"integers are mathematical; each arithmetic operation and narrowing conversion in a function under contract carries its own no-overflow/lossless obligation (kind ovf/conv), claimed only where discharged",
		"strings are an uninterpreted sort (length, concatenation length, literal distinctness only); floats are uninterpreted",
		"preconditions (`requires`) of functions under contract are proved at call sites that are themselves under contract and assumed at all other call sites",
		"the go/ssa construction of golang.org/x/tools v0.29.0 and the SSA->SMT translation of /verif/cmd/gvc are trusted",
	}
	assumptions = append(assumptions, pr.Requires...)
	for _, n := range pr.Notes {
		assumptions = append(assumptions, "abstraction: "+n)
	}
	ev := map[string]any{
		"property_id": prop,
		"tier":        tier,
		"seed":        seed,
		"level":       "proof",
		"coverage": map[string]any{
			"obligations":              len(pr.Outcomes),
			"discharged":               discharged,
			"checker_cmd":              fmt.Sprintf("./bin/gvc check -p %s -tier %s", prop, tier),
			"trusted_base":             trusted,
			"functions_under_contract": pr.Funcs,
			"per_obligation":           per,
			"backends":                 backends,
			"solver_seconds_total":     round3(solverSecs),
			"samples":                  samples,
			"unclaimed":                uncl,
			"bounded_standins":         standins,
			"seed_sensitive":           seedSensitive,
			"known_findings":           known,
			"translation_errors":       pr.FnErrors,
		},
		"assumptions": assumptions,
		"wall_s":      round3(wall),
		"violations":  nviol,
	}
	os.MkdirAll(filepath.Join(verifDir, "evidence"), 0o755)
	data, _ := json.MarshalIndent(ev, "", " ")
	os.WriteFile(filepath.Join(verifDir, "evidence", prop+".json"), data, 0o644)
}

func round3(f float64) float64 { return float64(int(f*1000+0.5)) / 1000 }

// cmdLock regenerates obligations.lock.json from the current tree (run by hand after contract changes; never at check time).
func cmdLock(args []string) int {
	P, DB, err := loadAll(nil)
	if err != nil {
		fmt.Println("load error:", err)
		return 2
	}
	props := map[string]bool{}
	for _, fc := range DB.Funcs {
		for _, p := range fc.Props {
			props[p] = true
		}
		for _, c := range fc.Ensures {
			for _, p := range c.Props {
				props[p] = true
			}
		}
	}
	for _, l := range DB.Lemmas {
		for _, p := range l.Props {
			props[p] = true
		}
	}
	wd := workDir()
	defer os.RemoveAll(wd)
	kfs := loadKnownFindings()
	unclaimed := loadUnclaimed()
	lock := &LockFile{Properties: map[string][]string{}}
	rc := 0
	for _, p := range sortedKeys(props) {
		pr := runProperty(P, DB, p, 10, 0, false, wd, kfs, unclaimed)
		set := map[string]bool{}
		for k, e := range pr.FnErrors {
			fmt.Printf("%s: %s: translation error: %s\n", p, k, e)
			rc = 1
		}
		for _, oc := range pr.Outcomes {
			if !oc.OK {
				fmt.Printf("%s: NOT discharged: %s (%s)\n", p, oc.O.Name(), oc.Res.Status)
				rc = 1
				continue
			}
			if isMandatoryKind(oc.O.Kind) {
				set[oc.O.Base()] = true
			}
		}
		lock.Properties[p] = sortedKeys(set)
		fmt.Printf("%s: %d obligations, %d mandatory clauses locked\n", p, len(pr.Outcomes), len(set))
	}
	data, _ := json.MarshalIndent(lock, "", " ")
	os.WriteFile(filepath.Join(verifDir, "obligations.lock.json"), data, 0o644)
	return rc
}
