package main

// go/ssa -> SMT verification conditions (passive, loop-cut encoding).

import (
	"fmt"
	"go/constant"
	"go/token"
	"go/types"
	"sort"
	"strings"

	"golang.org/x/tools/go/ssa"
)

// ---------------------------------------------------------------------------
// values and locations

type lvKind int

const (
	lvField  lvKind = iota // heap array F:T.f indexed by object ref
	lvElem                 // element heap E:τ indexed by base, then index
	lvCell                 // cell heap M:τ indexed by ref
	lvLocal                // private state variable
	lvOpaque               // unknown pointer
)

type LVal struct {
	kind lvKind
	arr  string // heap array / state variable name
	obj  string // object / base / ref term
	idx  string // element index term
	typ  types.Type
}

type Val struct {
	term  string
	lv    *LVal
	tuple []*Val
	// closure info (translation time)
	closureFn   *ssa.Function
	closureBind []*Val
}

type State struct {
	heap    map[string]string
	base    string
	rbase   string // epoch of arrays holding repository-declared types (survives calls into external libraries)
	alloc   string
	trace   string
	ntrace  string
	defers  map[*ssa.Defer]string
	visited map[*ssa.Range]string
}

func (s *State) clone() *State {
	n := &State{heap: make(map[string]string, len(s.heap)), base: s.base, rbase: s.rbase, alloc: s.alloc, trace: s.trace, ntrace: s.ntrace,
		defers: make(map[*ssa.Defer]string, len(s.defers)), visited: make(map[*ssa.Range]string, len(s.visited))}
	for k, v := range s.heap {
		n.heap[k] = v
	}
	for k, v := range s.defers {
		n.defers[k] = v
	}
	for k, v := range s.visited {
		n.visited[k] = v
	}
	return n
}

// Obligation is one verification condition.
type Obligation struct {
	Fn      string
	Kind    string // ensures | requires | inv-init | inv-pres | nil | bounds | assert | frame | panic | div | conv | ovf | mapnil | lemma | vacuity
	Label   string
	Ord     int
	Reach   string
	Goal    string
	Clause  *Clause
	Props   []string
	Pos     string
	Script  string // filled at solve time
	Expect  string // "unsat" normally; "sat" for vacuity guards
	B       *Builder
	Extra   []string
	GetVals []string // terms whose model values are wanted on sat
}

func (o *Obligation) Base() string { return fmt.Sprintf("%s#%s:%s", o.Fn, o.Kind, o.Label) }
func (o *Obligation) Name() string { return fmt.Sprintf("%s@%d", o.Base(), o.Ord) }

// Trans translates one top-level function.
type Trans struct {
	P           *Program
	DB          *ContractDB
	B           *Builder
	arrSort     map[string]string
	obls        []*Obligation
	ordCnt      map[string]int
	frames      int
	topKey      string
	fc          *FuncContract
	entry       *State
	safety      bool            // generate safety obligations
	trusted     map[string]bool // trusted / assumed things used
	inlineDepth int
	unsupported []string
	mergeInfo   map[string][]edge // merged epoch -> the incoming states (arrays first used later are resolved through them)
	verAlloc    map[string]string // heap array version -> allocation counter when the version was created
	baseAlloc   map[string]string
	lastAlloc   string
	lastVersion string // heap array version of the last load, and its nesting depth (1 field/cell, 2 element)
	lastDepth   int
	sealedCache map[string][]types.Type
}

func (t *Trans) noteVersion(c string, alloc string) {
	if t.verAlloc == nil {
		t.verAlloc = map[string]string{}
	}
	if _, ok := t.verAlloc[c]; !ok {
		t.verAlloc[c] = alloc
	}
}

func (t *Trans) trust(s string) { t.trusted[s] = true }

// closureID: a distinct positive number per function literal (type tag table reused).
func (t *Trans) closureID(fn *ssa.Function) string {
	k := "closure:" + FnKey(fn)
	if id, ok := t.B.typeIDs[k]; ok {
		return fmt.Sprint(id)
	}
	id := len(t.B.typeIDs) + 1
	t.B.typeIDs[k] = id
	t.B.typeOrd = append(t.B.typeOrd, k)
	return fmt.Sprint(id)
}

// globalAddr declares the address of a package-level variable: non-nil and allocated before the function runs.
func (t *Trans) globalAddr(name string) string {
	qn := q(name)
	if !t.B.declared[qn] {
		c := t.B.declConst(name, "Int")
		t.B.assert(fmt.Sprintf("(and (> %s 0) (<= %s %s))", c, c, t.entry.alloc))
	}
	return qn
}

func (t *Trans) arrayEntryName(name, base string) string { return name + "#" + base }

func (t *Trans) heapSort(name string) string { return t.arrSort[name] }

// get returns the current version of a heap array / state var.
func (t *Trans) get(st *State, name, sort string) string {
	if v, ok := st.heap[name]; ok {
		return v
	}
	if _, ok := t.arrSort[name]; !ok {
		t.arrSort[name] = sort
	}
	base := st.base
	if st.rbase != st.base && t.P.mentionsRepoType(name) {
		base = st.rbase
	}
	if es, ok := t.mergeInfo[base]; ok && !strings.HasPrefix(name, "L:") {
		// the epoch is a control-flow join: the array is the join of its versions in the incoming states
		out := t.get(es[len(es)-1].st, name, sort)
		same := true
		for i := len(es) - 2; i >= 0; i-- {
			v := t.get(es[i].st, name, sort)
			if v != out {
				same = false
			}
			out = ite(es[i].cond, v, out)
		}
		c := out
		if !same {
			c = t.B.define(name, sort, out)
			t.noteVersion(c, t.baseAlloc[base])
		}
		st.heap[name] = c
		return c
	}
	c := t.B.declConst(t.arrayEntryName(name, base), sort)
	st.heap[name] = c
	if a, ok := t.baseAlloc[base]; ok {
		t.noteVersion(c, a)
	}
	return c
}

func (t *Trans) set(st *State, name, sort, term string) {
	if _, ok := t.arrSort[name]; !ok {
		t.arrSort[name] = sort
	}
	c := t.B.define(name, sort, term)
	st.heap[name] = c
	t.noteVersion(c, st.alloc)
}

func (t *Trans) newState(base string) *State {
	st := &State{heap: map[string]string{}, base: base, rbase: base, defers: map[*ssa.Defer]string{}, visited: map[*ssa.Range]string{}}
	st.alloc = t.B.declConst("alloc#"+base, "Int")
	if t.baseAlloc == nil {
		t.baseAlloc = map[string]string{}
	}
	t.baseAlloc[base] = st.alloc
	st.trace = t.B.declConst("trace#"+base, "(Array Int Event)")
	st.ntrace = t.B.declConst("ntrace#"+base, "Int")
	return st
}

// havocAll forgets everything about the heap (unknown callee).
func (t *Trans) havocAll(st *State, cur string, keepTrace bool) string {
	return t.havocHeap(st, cur, keepTrace, false)
}

// havocHeap: keepRepo keeps every array that holds repository-declared types (call into an external library).
func (t *Trans) havocHeap(st *State, cur string, keepTrace bool, keepRepo bool) string {
	base := t.B.fresh("h")
	oldAlloc, oldTrace, oldN := st.alloc, st.trace, st.ntrace
	// keep private locals and defers
	nh := map[string]string{}
	for k, v := range st.heap {
		if strings.HasPrefix(k, "L:") || (keepRepo && t.P.mentionsRepoType(k)) {
			nh[k] = v
		}
	}
	st.heap = nh
	st.base = base
	if !keepRepo {
		st.rbase = base
	}
	st.alloc = t.B.declConst("alloc#"+base, "Int")
	if t.baseAlloc == nil {
		t.baseAlloc = map[string]string{}
	}
	t.baseAlloc[base] = st.alloc
	cur = and(cur, fmt.Sprintf("(>= %s %s)", st.alloc, oldAlloc))
	if !keepTrace {
		st.trace = t.B.declConst("trace#"+base, "(Array Int Event)")
		st.ntrace = t.B.declConst("ntrace#"+base, "Int")
		k := t.B.declConst(t.B.fresh("k"), "Int")
		_ = k
		cur = and(cur, fmt.Sprintf("(>= %s %s)", st.ntrace, oldN),
			fmt.Sprintf("(forall ((?i Int)) (! (=> (and (<= 0 ?i) (< ?i %s)) (= (select %s ?i) (select %s ?i))) :pattern ((select %s ?i)) :qid e8_trans_248))", oldN, st.trace, oldTrace, st.trace))
	}
	return cur
}

func fieldArr(structT types.Type, field string) string {
	return "F:" + mangleType(structT) + "." + field
}
func elemArr(elemT types.Type) string { return "E:" + mangleType(elemT) }
func cellArr(elemT types.Type) string { return "M:" + mangleType(elemT) }
func mapPArr(m *types.Map) string     { return "MP:" + mangleType(m) }
func mapVArr(m *types.Map) string     { return "MV:" + mangleType(m) }

func arrOf(s string) string { return "(Array Int " + s + ")" }

func (t *Trans) load(st *State, lv *LVal) string {
	t.lastAlloc = st.alloc
	t.lastVersion, t.lastDepth = "", 0
	switch lv.kind {
	case lvField, lvCell:
		ver := t.get(st, lv.arr, arrOf(t.B.sortOf(lv.typ)))
		if a, ok := t.verAlloc[ver]; ok {
			t.lastAlloc = a
		}
		t.lastVersion, t.lastDepth = ver, 1
		return fmt.Sprintf("(select %s %s)", ver, lv.obj)
	case lvElem:
		ver := t.get(st, lv.arr, arrOf(arrOf(t.B.sortOf(lv.typ))))
		if a, ok := t.verAlloc[ver]; ok {
			t.lastAlloc = a
		}
		t.lastVersion, t.lastDepth = ver, 2
		return fmt.Sprintf("(select (select %s %s) %s)", ver, lv.obj, lv.idx)
	case lvLocal:
		return t.get(st, lv.arr, t.B.sortOf(lv.typ))
	}
	t.B.note("load through opaque pointer")
	return t.B.declConst(t.B.fresh("opaque"), t.B.sortOf(lv.typ))
}

func (t *Trans) store(st *State, lv *LVal, v string) {
	switch lv.kind {
	case lvField, lvCell:
		s := arrOf(t.B.sortOf(lv.typ))
		t.set(st, lv.arr, s, fmt.Sprintf("(store %s %s %s)", t.get(st, lv.arr, s), lv.obj, v))
	case lvElem:
		s := arrOf(arrOf(t.B.sortOf(lv.typ)))
		a := t.get(st, lv.arr, s)
		t.set(st, lv.arr, s, fmt.Sprintf("(store %s %s (store (select %s %s) %s %s))", a, lv.obj, a, lv.obj, lv.idx, v))
	case lvLocal:
		t.set(st, lv.arr, t.B.sortOf(lv.typ), v)
	default:
		t.B.note("store through opaque pointer ignored")
	}
}

func isStructPtr(tp types.Type) (*types.Struct, types.Type, bool) {
	p, ok := tp.Underlying().(*types.Pointer)
	if !ok {
		return nil, nil, false
	}
	s, ok := p.Elem().Underlying().(*types.Struct)
	return s, p.Elem(), ok
}

// typeFacts returns well-formedness facts for a value of Go type tp held in term v.
func (t *Trans) typeFacts(st *State, v string, tp types.Type) string {
	return t.typeFactsA(st.alloc, v, tp)
}

// typeFactsA: alloc is the allocation counter that bounds references inside the value.
func (t *Trans) typeFactsA(alloc string, v string, tp types.Type) string {
	st := &State{alloc: alloc}
	if par, ok := tp.(*types.TypeParam); ok {
		if ct := coreOfTypeParam(par); ct != nil {
			if _, isParam := ct.(*types.TypeParam); !isParam {
				if sl, isSlice := ct.(*types.Slice); isSlice {
					if _, elemParam := sl.Elem().(*types.TypeParam); elemParam {
						// the element type is a parameter as well: only the shape of the slice header is known
						return fmt.Sprintf("(and (<= 0 (s_base %s)) (<= (s_base %s) %s) (<= 0 (s_off %s)) (<= 0 (s_len %s)) (<= (s_len %s) (s_cap %s)) (<= (s_cap %s) 4611686018427387904) (=> (= (s_base %s) 0) (= %s nil_slice)))", v, v, st.alloc, v, v, v, v, v, v, v)
					}
				}
				return t.typeFactsA(alloc, v, ct)
			}
		}
	}
	switch u := tp.Underlying().(type) {
	case *types.Basic:
		if lo, hi, ok := intRange(tp); ok {
			return fmt.Sprintf("(and (<= %s %s) (<= %s %s))", lo, v, v, hi)
		}
	case *types.Pointer, *types.Map, *types.Chan:
		_ = u
		return fmt.Sprintf("(and (<= 0 %s) (<= %s %s))", v, v, st.alloc)
	case *types.Slice:
		return fmt.Sprintf("(and (<= 0 (s_base %s)) (<= (s_base %s) %s) (<= 0 (s_off %s)) (<= 0 (s_len %s)) (<= (s_len %s) (s_cap %s)) (<= (s_cap %s) 4611686018427387904) (=> (= (s_base %s) 0) (= %s nil_slice)))", v, v, st.alloc, v, v, v, v, v, v, v)
	case *types.Interface:
		base := fmt.Sprintf("(and (<= 0 (i_tag %s)) (=> (= (i_tag %s) 0) (= %s nil_iface)))", v, v, v)
		if impls := t.sealedImplementers(tp); len(impls) > 0 {
			// sealed interface (unexported marker method, e.g. a protobuf oneof): the dynamic type is one of the
			// implementers declared in its package, and generated oneof wrappers are never typed nil pointers
			alts := []string{fmt.Sprintf("(= (i_tag %s) 0)", v)}
			for _, it := range impls {
				alts = append(alts, fmt.Sprintf("(= (i_tag %s) %s)", v, t.B.typeID(it)))
			}
			base = and(base, or(alts...), fmt.Sprintf("(=> (not (= (i_tag %s) 0)) (not (= (i_val %s) 0)))", v, v))
			t.trust("sealed interfaces (protobuf oneof) hold only their declared wrapper types, never typed nil pointers")
		}
		return base
	}
	return "true"
}

// sealedImplementers lists the pointer types implementing a sealed interface (one with an unexported method), or nil.
func (t *Trans) sealedImplementers(tp types.Type) []types.Type {
	named, ok := tp.(*types.Named)
	if !ok {
		return nil
	}
	it, ok := named.Underlying().(*types.Interface)
	if !ok || it.NumMethods() == 0 {
		return nil
	}
	sealed := false
	for i := 0; i < it.NumMethods(); i++ {
		if !it.Method(i).Exported() {
			sealed = true
		}
	}
	if !sealed || named.Obj().Pkg() == nil || !strings.HasPrefix(named.Obj().Name(), "is") {
		return nil
	}
	if t.sealedCache == nil {
		t.sealedCache = map[string][]types.Type{}
	}
	key := types.TypeString(tp, nil)
	if r, ok := t.sealedCache[key]; ok {
		return r
	}
	var out []types.Type
	scope := named.Obj().Pkg().Scope()
	for _, n := range scope.Names() {
		tn, ok := scope.Lookup(n).(*types.TypeName)
		if !ok {
			continue
		}
		pt := types.NewPointer(tn.Type())
		if types.Implements(pt, it) {
			out = append(out, pt)
		}
	}
	t.sealedCache[key] = out
	return out
}

// ---------------------------------------------------------------------------
// frames

type edge struct {
	cond string
	st   *State
	from *ssa.BasicBlock
}

type callRec struct {
	common *ssa.CallCommon // identifies the call site
	val    *Val
	cond   string
	args   []*Val
	argT   []types.Type
}

type retInfo struct {
	cond string
	st   *State
	vals []*Val
	ret  *ssa.Return
}

type loopInfo struct {
	header    *ssa.BasicBlock
	body      map[*ssa.BasicBlock]bool
	backEdges []*ssa.BasicBlock
	ordinal   int
}

type frame struct {
	t               *Trans
	fn              *ssa.Function
	id              int
	top             bool
	depth           int
	vals            map[ssa.Value]*Val
	in              map[*ssa.BasicBlock][]edge
	loops           map[*ssa.BasicBlock]*loopInfo
	params          []*Val
	entry           *State // state at function entry (for old())
	rets            []retInfo
	names           map[string][]ssa.Value // source variable name -> SSA values
	allocs          map[string]*ssa.Alloc
	hdrEnv          map[*ssa.BasicBlock]*State
	curLoopHdrState map[*ssa.BasicBlock]*State
	retCount        int
	fc              *FuncContract
	site            ssa.CallInstruction
	lets            map[string]cval
	loopEff         map[*loopInfo]*effects
	loopPre         map[*loopInfo]*State
	loopEntry       map[*loopInfo]map[*ssa.Phi]string // value of each header phi when the loop was entered ($entry_<name>)
	loopVariant     map[*loopInfo]string              // value of the loop's variant (decreases clause) at the loop head
	callLog         map[string][]callRec
	sitesCache      map[string][]*ssa.CallCommon
	preTerm         string // the function's precondition (top frame)
	prefix          string // obligation label prefix of an inlined activation
	silent          bool   // no obligations (evaluation of contract expressions)
}

func (t *Trans) newFrame(fn *ssa.Function, top bool, depth int) *frame {
	t.frames++
	f := &frame{t: t, fn: fn, id: t.frames, top: top, depth: depth, vals: map[ssa.Value]*Val{}, in: map[*ssa.BasicBlock][]edge{},
		loops: map[*ssa.BasicBlock]*loopInfo{}, names: map[string][]ssa.Value{}, allocs: map[string]*ssa.Alloc{}}
	return f
}

func (f *frame) vname(v ssa.Value) string {
	return fmt.Sprintf("f%d.%s", f.id, v.Name())
}

func (f *frame) addObl(kind, label, reach, goal string, cl *Clause, pos token.Pos, props []string) *Obligation {
	if f.silent {
		return nil
	}
	label = f.prefix + label
	t := f.t
	o := &Obligation{Fn: t.topKey, Kind: kind, Label: label, Reach: reach, Goal: goal, Clause: cl, Props: props, B: t.B, Expect: "unsat"}
	if pos.IsValid() {
		p := t.P.Prog.Fset.Position(pos)
		o.Pos = fmt.Sprintf("%s:%d", p.Filename, p.Line)
	}
	base := o.Base()
	o.Ord = t.ordCnt[base]
	t.ordCnt[base]++
	t.obls = append(t.obls, o)
	return o
}

func (f *frame) safetyObl(kind, label, reach, goal string, pos token.Pos) {
	if f.silent || !f.t.safety {
		return
	}
	f.addObl(kind, label, reach, goal, nil, pos, nil)
}

// analyse computes loops and a topological block order ignoring back edges.
func (f *frame) analyse() ([]*ssa.BasicBlock, error) {
	fn := f.fn
	// back edges: u->h with h dominating u
	for _, b := range fn.Blocks {
		for _, s := range b.Succs {
			if s.Dominates(b) {
				li := f.loops[s]
				if li == nil {
					li = &loopInfo{header: s, body: map[*ssa.BasicBlock]bool{s: true}}
					f.loops[s] = li
				}
				li.backEdges = append(li.backEdges, b)
			}
		}
	}
	// natural loop bodies
	for _, li := range f.loops {
		var stack []*ssa.BasicBlock
		for _, b := range li.backEdges {
			if !li.body[b] {
				li.body[b] = true
				stack = append(stack, b)
			}
		}
		for len(stack) > 0 {
			b := stack[len(stack)-1]
			stack = stack[:len(stack)-1]
			for _, p := range b.Preds {
				if !li.body[p] {
					li.body[p] = true
					stack = append(stack, p)
				}
			}
		}
	}
	// loop ordinals in source order of header position
	var hdrs []*ssa.BasicBlock
	for h := range f.loops {
		hdrs = append(hdrs, h)
	}
	sort.Slice(hdrs, func(i, j int) bool {
		return blockPos(hdrs[i]) < blockPos(hdrs[j]) || (blockPos(hdrs[i]) == blockPos(hdrs[j]) && hdrs[i].Index < hdrs[j].Index)
	})
	for i, h := range hdrs {
		f.loops[h].ordinal = i
	}
	// topological order (DFS postorder reversed, skipping back edges)
	visited := map[*ssa.BasicBlock]bool{}
	var order []*ssa.BasicBlock
	var dfs func(b *ssa.BasicBlock)
	dfs = func(b *ssa.BasicBlock) {
		visited[b] = true
		for _, s := range b.Succs {
			if s.Dominates(b) {
				continue
			}
			if !visited[s] {
				dfs(s)
			}
		}
		order = append(order, b)
	}
	dfs(fn.Blocks[0])
	for i, j := 0, len(order)-1; i < j; i, j = i+1, j-1 {
		order[i], order[j] = order[j], order[i]
	}
	return order, nil
}

func blockPos(b *ssa.BasicBlock) token.Pos {
	best := token.NoPos
	for _, in := range b.Instrs {
		if p := in.Pos(); p.IsValid() && (best == token.NoPos || p < best) {
			best = p
		}
	}
	// include positions from the loop body's first block if header has none
	return best
}

// collectNames maps source variable names to SSA values (for invariants).
func (f *frame) collectNames() {
	add := func(name string, v ssa.Value) {
		for _, x := range f.names[name] {
			if x == v {
				return
			}
		}
		f.names[name] = append(f.names[name], v)
	}
	for _, b := range f.fn.Blocks {
		for _, in := range b.Instrs {
			switch x := in.(type) {
			case *ssa.Phi:
				if x.Comment != "" {
					add(x.Comment, x)
				}
			case *ssa.DebugRef:
				if x.IsAddr {
					continue
				}
				if id, ok := x.Expr.(interface{ String() string }); ok {
					_ = id
				}
				if obj := x.Object(); obj != nil {
					if _, isVar := obj.(*types.Var); isVar {
						add(obj.Name(), x.X)
					}
				}
			case *ssa.Alloc:
				if x.Comment != "" {
					f.allocs[x.Comment] = x
				}
			}
		}
	}
}

// mergeEdges joins the states of several incoming edges.
func (f *frame) mergeEdges(es []edge) (string, *State) {
	t := f.t
	if len(es) == 1 {
		return es[0].cond, es[0].st.clone()
	}
	var conds []string
	for _, e := range es {
		conds = append(conds, e.cond)
	}
	cond := t.B.define(fmt.Sprintf("f%d.join", f.id), "Bool", or(conds...))
	pick := func(get func(s *State) string) string {
		out := get(es[len(es)-1].st)
		for i := len(es) - 2; i >= 0; i-- {
			out = ite(es[i].cond, get(es[i].st), out)
		}
		return out
	}
	sameBase := true
	for _, e := range es[1:] {
		if e.st.base != es[0].st.base || e.st.rbase != es[0].st.rbase {
			sameBase = false
		}
	}
	st := es[0].st.clone()
	names := map[string]bool{}
	for _, e := range es {
		for k := range e.st.heap {
			names[k] = true
		}
	}
	if !sameBase {
		st.base = t.B.fresh("m")
		st.rbase = st.base
		if t.mergeInfo == nil {
			t.mergeInfo = map[string][]edge{}
		}
		var snap []edge
		for _, e := range es {
			snap = append(snap, edge{cond: e.cond, st: e.st})
		}
		t.mergeInfo[st.base] = snap
		for k := range t.arrSort {
			names[k] = true
		}
	}
	mergeScalar := func(get func(s *State) string, sortK, name string) string {
		first := get(es[0].st)
		same := true
		for _, e := range es[1:] {
			if get(e.st) != first {
				same = false
			}
		}
		if same {
			return first
		}
		return t.B.define(name, sortK, pick(get))
	}
	st.alloc = mergeScalar(func(s *State) string { return s.alloc }, "Int", "alloc")
	st.trace = mergeScalar(func(s *State) string { return s.trace }, "(Array Int Event)", "trace")
	st.ntrace = mergeScalar(func(s *State) string { return s.ntrace }, "Int", "ntrace")
	if !sameBase {
		if t.baseAlloc == nil {
			t.baseAlloc = map[string]string{}
		}
		t.baseAlloc[st.base] = st.alloc
	}
	for _, k := range sortedKeys(names) {
		if strings.HasPrefix(k, "L:") {
			// private local: may be undefined on some edges
			all := true
			for _, e := range es {
				if _, ok := e.st.heap[k]; !ok {
					all = false
				}
			}
			if !all {
				delete(st.heap, k)
				continue
			}
		}
		sortK := t.arrSort[k]
		first := t.get(es[0].st, k, sortK)
		same := true
		for _, e := range es[1:] {
			if t.get(e.st, k, sortK) != first {
				same = false
			}
		}
		if same {
			st.heap[k] = first
			continue
		}
		st.heap[k] = t.B.define(k, sortK, pick(func(s *State) string { return t.get(s, k, sortK) }))
		t.noteVersion(st.heap[k], st.alloc)
	}
	// defers
	dset := map[*ssa.Defer]bool{}
	for _, e := range es {
		for d := range e.st.defers {
			dset[d] = true
		}
	}
	for d := range dset {
		st.defers[d] = mergeScalar(func(s *State) string {
			if v, ok := s.defers[d]; ok {
				return v
			}
			return "false"
		}, "Bool", "deferred")
	}
	rset := map[*ssa.Range]bool{}
	for _, e := range es {
		for r := range e.st.visited {
			rset[r] = true
		}
	}
	for r := range rset {
		ok := true
		for _, e := range es {
			if _, has := e.st.visited[r]; !has {
				ok = false
			}
		}
		if !ok {
			delete(st.visited, r)
			continue
		}
		ks := f.t.B.sortOf(r.X.Type().Underlying().(*types.Map).Key())
		st.visited[r] = mergeScalar(func(s *State) string { return s.visited[r] }, "(Array "+ks+" Bool)", "visited")
	}
	return cond, st
}

// termOf returns the SMT term of an SSA value.
func (f *frame) termOf(v ssa.Value) string {
	val := f.valOf(v)
	if val.term != "" {
		return val.term
	}
	if val.lv != nil {
		if val.lv.kind == lvCell {
			return val.lv.obj
		}
		f.t.B.note("address of %s escapes as a value in %s", v.Name(), f.fn.Name())
		val.term = f.t.B.declConst(f.t.B.fresh("addr"), "Int")
		return val.term
	}
	if val.tuple != nil {
		return "0"
	}
	return "0"
}

func (f *frame) valOf(v ssa.Value) *Val {
	if val, ok := f.vals[v]; ok {
		return val
	}
	t := f.t
	switch x := v.(type) {
	case *ssa.Const:
		val := &Val{term: f.constTerm(x)}
		return val
	case *ssa.Global:
		// package-level variable: address of a private state variable
		tp := x.Type().(*types.Pointer).Elem()
		name := "G:" + pkgQualifier(x.Pkg.Pkg.Path()) + "." + x.Name()
		t.globalAddr(name)
		if _, _, ok := isStructPtr(x.Type()); ok {
			val := &Val{term: t.B.declConst(name, "Int")}
			f.vals[v] = val
			return val
		}
		val := &Val{lv: &LVal{kind: lvCell, arr: cellArr(tp), obj: t.B.declConst(name, "Int"), typ: tp}}
		f.vals[v] = val
		return val
	case *ssa.Function:
		name := "fn:" + FnKey(x) + x.String()
		fresh := !t.B.declared[q(name)]
		val := &Val{term: t.B.declConst(name, "Int"), closureFn: x}
		if fresh {
			cf := t.B.declFun("closure_fn", []string{"Int"}, "Int")
			t.B.assert(fmt.Sprintf("(and (> %s 0) (= (%s %s) %s))", val.term, cf, val.term, t.closureID(x)))
		}
		f.vals[v] = val
		return val
	case *ssa.Builtin:
		return &Val{term: "0"}
	case *ssa.FreeVar:
		// should have been bound by the inliner
		val := &Val{term: t.B.declConst(f.vname(v), t.B.sortOf(v.Type()))}
		if p, ok := v.Type().Underlying().(*types.Pointer); ok {
			if _, isS := p.Elem().Underlying().(*types.Struct); !isS {
				val = &Val{lv: &LVal{kind: lvCell, arr: cellArr(p.Elem()), obj: val.term, typ: p.Elem()}}
			}
		}
		f.vals[v] = val
		return val
	}
	// value not yet computed (e.g. defined in an unreachable or later block): unconstrained
	val := &Val{term: t.B.declConst(f.vname(v), t.B.sortOf(v.Type()))}
	f.vals[v] = val
	return val
}

func (f *frame) constTerm(c *ssa.Const) string {
	t := f.t
	if c.Value == nil {
		return t.B.zero(c.Type())
	}
	switch c.Value.Kind() {
	case constant.Bool:
		if constant.BoolVal(c.Value) {
			return "true"
		}
		return "false"
	case constant.String:
		return t.B.strLit(constant.StringVal(c.Value))
	case constant.Int:
		if b, ok := c.Type().Underlying().(*types.Basic); ok && b.Info()&types.IsFloat != 0 {
			return t.B.declConst("flt:"+c.Value.ExactString(), "Flt")
		}
		s := c.Value.ExactString()
		if strings.HasPrefix(s, "-") {
			return "(- " + s[1:] + ")"
		}
		return s
	case constant.Float, constant.Complex:
		return t.B.declConst("flt:"+c.Value.ExactString(), "Flt")
	}
	return "0"
}

// lvalOf gives the location a pointer value refers to.
func (f *frame) lvalOf(v ssa.Value) *LVal {
	val := f.valOf(v)
	if val.lv != nil {
		return val.lv
	}
	p, ok := v.Type().Underlying().(*types.Pointer)
	if !ok {
		return &LVal{kind: lvOpaque, typ: v.Type()}
	}
	return &LVal{kind: lvCell, arr: cellArr(p.Elem()), obj: val.term, typ: p.Elem()}
}

// loadStruct reads a whole struct value from the flattened heap.
func (f *frame) loadStruct(st *State, ref string, T types.Type) string {
	t := f.t
	s := T.Underlying().(*types.Struct)
	t.B.sortOf(T)
	var fs []string
	for i := 0; i < s.NumFields(); i++ {
		fld := s.Field(i)
		if _, isS := fld.Type().Underlying().(*types.Struct); isS {
			fs = append(fs, f.loadStruct(st, f.subObj(ref, T, fld.Name()), fld.Type()))
			continue
		}
		fs = append(fs, t.load(st, &LVal{kind: lvField, arr: fieldArr(T, fld.Name()), obj: ref, typ: fld.Type()}))
	}
	if len(fs) == 0 {
		return t.B.structCtor(T)
	}
	return "(" + t.B.structCtor(T) + " " + strings.Join(fs, " ") + ")"
}

func (f *frame) storeStruct(st *State, ref string, T types.Type, v string) {
	t := f.t
	s := T.Underlying().(*types.Struct)
	t.B.sortOf(T)
	for i := 0; i < s.NumFields(); i++ {
		fld := s.Field(i)
		fv := fmt.Sprintf("(%s %s)", t.B.structAcc(T, fld.Name()), v)
		if _, isS := fld.Type().Underlying().(*types.Struct); isS {
			f.storeStruct(st, f.subObj(ref, T, fld.Name()), fld.Type(), fv)
			continue
		}
		t.store(st, &LVal{kind: lvField, arr: fieldArr(T, fld.Name()), obj: ref, typ: fld.Type()}, fv)
	}
}

func (f *frame) subObj(ref string, T types.Type, field string) string {
	fn := f.t.B.declFun("sub:"+mangleType(T)+"."+field, []string{"Int"}, "Int")
	return fmt.Sprintf("(%s %s)", fn, ref)
}

// allocRef allocates a fresh reference.
func (f *frame) allocRef(st *State, name string) string {
	t := f.t
	r := t.B.define(name, "Int", fmt.Sprintf("(+ %s 1)", st.alloc))
	st.alloc = r
	return r
}

// zeroStruct initialises all fields of a freshly allocated struct.
// runtimeInternalField: bookkeeping fields of generated protobuf messages and sync primitives, never read by repository code.
func runtimeInternalField(fld *types.Var) bool {
	t := fld.Type()
	if p, ok := t.(*types.Pointer); ok {
		t = p.Elem()
	}
	if n, ok := t.(*types.Named); ok && n.Obj().Pkg() != nil {
		path := n.Obj().Pkg().Path()
		if strings.HasPrefix(path, "google.golang.org/protobuf/") && n.Obj().Pkg().Name() != "anypb" {
			return true
		}
		if path == "sync" || path == "sync/atomic" {
			return true
		}
	}
	return false
}

func (f *frame) zeroStruct(st *State, ref string, T types.Type) {
	s := T.Underlying().(*types.Struct)
	for i := 0; i < s.NumFields(); i++ {
		fld := s.Field(i)
		if runtimeInternalField(fld) {
			continue
		}
		if _, isS := fld.Type().Underlying().(*types.Struct); isS {
			// sub-objects of sync primitives etc. are not initialised (never read)
			if named, ok := fld.Type().(*types.Named); ok && named.Obj().Pkg() != nil && named.Obj().Pkg().Path() == "sync" {
				continue
			}
			f.zeroStruct(st, f.subObj(ref, T, fld.Name()), fld.Type())
			continue
		}
		f.t.store(st, &LVal{kind: lvField, arr: fieldArr(T, fld.Name()), obj: ref, typ: fld.Type()}, f.t.B.zero(fld.Type()))
	}
}
