package main

// Symbolic execution of one function activation (top-level or inlined).

import (
	"fmt"
	"go/token"
	"go/types"
	"sort"
	"strings"

	"golang.org/x/tools/go/ssa"
)

func (f *frame) bindParams(args []*Val) {
	for i, p := range f.fn.Params {
		if i < len(args) {
			f.vals[p] = args[i]
		}
	}
}

func (f *frame) addEdge(from, to *ssa.BasicBlock, cond string, st *State) {
	f.in[to] = append(f.in[to], edge{cond: cond, st: st, from: from})
}

// predIndex maps the k-th edge from `from` into to.Preds index.
func predIndexes(to *ssa.BasicBlock, es []edge) []int {
	used := map[int]bool{}
	out := make([]int, len(es))
	for i, e := range es {
		out[i] = -1
		for j, p := range to.Preds {
			if p == e.from && !used[j] {
				used[j] = true
				out[i] = j
				break
			}
		}
	}
	return out
}

func (f *frame) run(args []*Val, st0 *State, cond0 string) error {
	t := f.t
	if len(f.fn.Blocks) == 0 {
		return fmt.Errorf("function %s has no body", f.fn)
	}
	order, err := f.analyse()
	if err != nil {
		return err
	}
	f.collectNames()
	f.bindParams(args)
	f.entry = st0.clone()
	f.in[f.fn.Blocks[0]] = []edge{{cond: cond0, st: st0}}
	f.hdrEnv = map[*ssa.BasicBlock]*State{}
	for _, b := range order {
		es := f.in[b]
		if len(es) == 0 {
			continue
		}
		var cur string
		var st *State
		if li := f.loops[b]; li != nil {
			if !f.top {
				return fmt.Errorf("loop in inlined function %s", f.fn)
			}
			cur, st, err = f.enterLoop(li, es)
			if err != nil {
				return err
			}
		} else {
			cur, st = f.mergeEdges(es)
			idx := predIndexes(b, es)
			for _, in := range b.Instrs {
				phi, ok := in.(*ssa.Phi)
				if !ok {
					break
				}
				f.vals[phi] = f.mergePhi(phi, es, idx)
			}
		}
		cur = t.B.define(fmt.Sprintf("f%d.reach%d", f.id, b.Index), "Bool", cur)
		for _, in := range b.Instrs {
			if _, ok := in.(*ssa.Phi); ok {
				continue
			}
			cur, err = f.exec(in, st, cur)
			if err != nil {
				return err
			}
		}
	}
	return nil
}

func (f *frame) mergePhi(phi *ssa.Phi, es []edge, idx []int) *Val {
	t := f.t
	sortP := t.B.sortOf(phi.Type())
	// lvalue phis: if all incoming are the same lvalue, keep it
	var terms []string
	for i := range es {
		if idx[i] < 0 {
			terms = append(terms, t.B.zero(phi.Type()))
			continue
		}
		terms = append(terms, f.termOf(phi.Edges[idx[i]]))
	}
	out := terms[len(terms)-1]
	for i := len(terms) - 2; i >= 0; i-- {
		out = ite(es[i].cond, terms[i], out)
	}
	return &Val{term: t.B.define(f.vname(phi), sortP, out)}
}

// ---------------------------------------------------------------------------
// loops

func (f *frame) loopClauses(li *loopInfo) []*Clause {
	var cls []*Clause
	if f.fc != nil {
		cls = append(cls, f.fc.Invariants[li.ordinal]...)
	}
	return cls
}

// rangeIndexInfo recognises the SSA lowering of "for i, x := range slice".
func (f *frame) rangeIndexInfo(li *loopInfo) (phi *ssa.Phi, seq ssa.Value, lenV ssa.Value) {
	for _, in := range li.header.Instrs {
		p, ok := in.(*ssa.Phi)
		if !ok {
			continue
		}
		if p.Comment == "rangeindex" {
			phi = p
		}
	}
	if phi == nil {
		return nil, nil, nil
	}
	for _, in := range li.header.Instrs {
		if bo, ok := in.(*ssa.BinOp); ok && bo.Op == token.LSS {
			if inc, ok := bo.X.(*ssa.BinOp); ok && inc.X == phi {
				lenV = bo.Y
				if c, ok := bo.Y.(*ssa.Call); ok {
					if bi, ok := c.Call.Value.(*ssa.Builtin); ok && bi.Name() == "len" {
						seq = c.Call.Args[0]
					}
				}
			}
		}
	}
	return
}

func (f *frame) rangeMapInfo(li *loopInfo) *ssa.Range {
	for _, in := range li.header.Instrs {
		if n, ok := in.(*ssa.Next); ok {
			if r, ok := n.Iter.(*ssa.Range); ok {
				if _, isMap := r.X.Type().Underlying().(*types.Map); isMap {
					return r
				}
			}
		}
	}
	return nil
}

type invEnvKind int

// invEnv builds the expression environment of a loop invariant.
// phiVal gives the term to use for each header phi.
func (f *frame) invEnv(li *loopInfo, st *State, phiTerm func(p *ssa.Phi) string) *exprEnv {
	env := f.baseEnv(st)
	// a parameter reassigned before the loop (if p == nil { p = ... }): the invariant speaks about the value the
	// variable has at the loop, i.e. the join that dominates the header; $param_<name> is the entry value
	for _, prm := range f.fn.Params {
		var best *ssa.Phi
		for _, x := range f.names[prm.Name()] {
			ph, ok := x.(*ssa.Phi)
			if !ok || ph.Block() == li.header || !ph.Block().Dominates(li.header) {
				continue
			}
			if v, has := f.vals[ph]; has && v.term != "" && (best == nil || best.Block().Dominates(ph.Block())) {
				best = ph
			}
		}
		if best != nil {
			if cur, ok := env.vars[prm.Name()]; ok {
				env.vars["ζparam_"+prm.Name()] = cur
			}
			env.vars[prm.Name()] = cval{term: f.vals[best].term, typ: best.Type()}
		}
	}
	// variables carried by enclosing loops keep the value they have in the current iteration of those loops
	var outer []*loopInfo
	for _, o := range f.loops {
		if o != li && o.body[li.header] {
			outer = append(outer, o)
		}
	}
	sort.Slice(outer, func(i, j int) bool { return len(outer[i].body) > len(outer[j].body) })
	for _, o := range outer {
		// $n_loop<k>: completed iterations of the enclosing range loop with ordinal k
		if phi, _, lenV := f.rangeIndexInfo(o); phi != nil {
			if v, ok := f.vals[phi]; ok && v.term != "" {
				env.vars[fmt.Sprintf("ζn_loop%d", o.ordinal)] = cval{term: fmt.Sprintf("(+ %s 1)", v.term), typ: types.Typ[types.Int]}
			}
			// $len_loop<k>: the number of elements the enclosing range loop iterates over
			if lenV != nil {
				if lv, ok := f.vals[lenV]; ok && lv.term != "" {
					env.vars[fmt.Sprintf("ζlen_loop%d", o.ordinal)] = cval{term: lv.term, typ: types.Typ[types.Int]}
				}
			}
		}
		for _, in := range o.header.Instrs {
			if p, ok := in.(*ssa.Phi); ok && p.Comment != "" {
				if v, ok := f.vals[p]; ok && v.term != "" {
					env.vars[p.Comment] = cval{term: v.term, typ: p.Type()}
				}
			}
		}
	}
	for _, in := range li.header.Instrs {
		p, ok := in.(*ssa.Phi)
		if !ok {
			continue
		}
		if p.Comment != "" {
			env.vars[p.Comment] = cval{term: phiTerm(p), typ: p.Type()}
			// $entry_<name>: the value the variable had when the loop was entered
			if ent, ok := f.loopEntry[li][p]; ok {
				env.vars["ζentry_"+p.Comment] = cval{term: ent, typ: p.Type()}
			} else {
				env.vars["ζentry_"+p.Comment] = cval{term: phiTerm(p), typ: p.Type()}
			}
		}
	}
	if phi, seq, lenV := f.rangeIndexInfo(li); phi != nil {
		env.vars["ζn"] = cval{term: fmt.Sprintf("(+ %s 1)", phiTerm(phi)), typ: types.Typ[types.Int]}
		env.vars["ζi"] = cval{term: phiTerm(phi), typ: types.Typ[types.Int]}
		if seq != nil {
			env.vars["ζseq"] = cval{term: f.termOf(seq), typ: seq.Type()}
		}
		if lenV != nil {
			env.vars["ζlen"] = cval{term: f.termOf(lenV), typ: types.Typ[types.Int]}
		}
	}
	if r := f.rangeMapInfo(li); r != nil {
		mt := r.X.Type().Underlying().(*types.Map)
		if v, ok := st.visited[r]; ok {
			env.vars["ζvisited"] = cval{term: v, typ: nil, sort: "(Array " + f.t.B.sortOf(mt.Key()) + " Bool)"}
		}
		env.vars["ζmap"] = cval{term: f.termOf(r.X), typ: r.X.Type()}
	}
	// $n_outer: completed iterations of the innermost enclosing range loop (fixed while this loop runs)
	var encl *loopInfo
	for _, o := range f.loops {
		if o != li && o.body[li.header] && (encl == nil || len(o.body) < len(encl.body)) {
			encl = o
		}
	}
	if encl != nil {
		if phi, _, _ := f.rangeIndexInfo(encl); phi != nil {
			if v, ok := f.vals[phi]; ok && v.term != "" {
				env.vars["ζn_outer"] = cval{term: fmt.Sprintf("(+ %s 1)", v.term), typ: types.Typ[types.Int]}
			}
		}
	}
	env.loop = li
	for k, v := range f.lets {
		if _, clash := env.vars[k]; !clash {
			env.vars[k] = v
		}
	}
	return env
}

func (f *frame) autoInvariants(li *loopInfo, st *State, phiTerm func(p *ssa.Phi) string) []string {
	var out []string
	// heap arrays that the loop writes only inside objects allocated within the loop keep the content of
	// every object that existed when the loop was entered
	if eff := f.loopEff[li]; eff != nil && !eff.all && !eff.ext && !(f.t.fc != nil && f.t.fc.NoAutoFrame) {
		if pre := f.loopPre[li]; pre != nil && st != pre {
			t := f.t
			for _, name := range sortedKeys(eff.arrs) {
				if eff.dirty[name] || strings.HasPrefix(name, "L:") {
					continue
				}
				sortA := t.descSort(eff.arrs[name])
				if !strings.HasPrefix(sortA, "(Array Int ") {
					continue
				}
				cur, old := t.get(st, name, sortA), t.get(pre, name, sortA)
				if cur == old {
					continue
				}
				qv := q(t.B.fresh("?p"))
				out = append(out, fmt.Sprintf("(forall ((%s Int)) (! (=> (and (<= 0 %s) (<= %s %s)) (= (select %s %s) (select %s %s))) :pattern ((select %s %s)) :qid e16_exec_274))", qv, qv, qv, pre.alloc, cur, qv, old, qv, cur, qv))
			}
		}
	}
	if phi, _, lenV := f.rangeIndexInfo(li); phi != nil && lenV != nil {
		i := phiTerm(phi)
		n := f.termOf(lenV)
		out = append(out, fmt.Sprintf("(and (<= (- 1) %s) (or (= %s (- 1)) (< %s %s)))", i, i, i, n))
	}
	return out
}

func (f *frame) enterLoop(li *loopInfo, es []edge) (string, *State, error) {
	t := f.t
	b := li.header
	idx := predIndexes(b, es)
	cls := f.loopClauses(li)
	if f.loopEff == nil {
		f.loopEff = map[*loopInfo]*effects{}
	}
	f.loopEff[li] = f.loopEffects(li)
	delete(f.loopEntry, li)
	// 1. init obligations per entry edge
	for i, e := range es {
		i := i
		phiIn := func(p *ssa.Phi) string {
			if idx[i] < 0 {
				return t.B.zero(p.Type())
			}
			return f.termOf(p.Edges[idx[i]])
		}
		stE := e.st.clone()
		if r := f.rangeMapInfo(li); r != nil {
			mt := r.X.Type().Underlying().(*types.Map)
			ks := t.B.sortOf(mt.Key())
			stE.visited[r] = fmt.Sprintf("((as const (Array %s Bool)) false)", ks)
		}
		for _, a := range f.autoInvariants(li, stE, phiIn) {
			f.addObl("inv-init", fmt.Sprintf("loop%d.auto", li.ordinal), e.cond, a, nil, b.Instrs[0].Pos(), nil)
		}
		for _, c := range cls {
			env := f.invEnv(li, stE, phiIn)
			g, err := env.compileBool(c.Expr)
			if err != nil {
				return "", nil, fmt.Errorf("%s: loop %d invariant %s: %v", c.Where, li.ordinal, c.Name, err)
			}
			f.addObl("inv-init", fmt.Sprintf("loop%d.%s", li.ordinal, c.Name), e.cond, g, c, b.Instrs[0].Pos(), invProps(f.fc, c))
		}
	}
	// 2. havoc
	if f.loopEntry == nil {
		f.loopEntry = map[*loopInfo]map[*ssa.Phi]string{}
	}
	entryVals := map[*ssa.Phi]string{}
	for _, in := range b.Instrs {
		if p, ok := in.(*ssa.Phi); ok && p.Comment != "" {
			var terms []string
			for i := range es {
				if idx[i] < 0 {
					terms = append(terms, t.B.zero(p.Type()))
				} else {
					terms = append(terms, f.termOf(p.Edges[idx[i]]))
				}
			}
			out := terms[len(terms)-1]
			for i := len(terms) - 2; i >= 0; i-- {
				out = ite(es[i].cond, terms[i], out)
			}
			entryVals[p] = out
		}
	}
	cond, st := f.mergeEdges(es)
	if f.top && f.fc != nil && f.fc.CutLoops && f.preTerm != "" {
		// modular loop reasoning: beyond this point only the precondition, the invariants and unmodified state are known
		cond = f.preTerm
	}
	eff := f.loopEff[li]
	if f.loopPre == nil {
		f.loopPre = map[*loopInfo]*State{}
	}
	f.loopPre[li] = st.clone()
	preAlloc := st.alloc
	if eff.all {
		cond = t.havocAll(st, cond, !eff.trace)
	} else {
		if eff.ext {
			t.trust("external library callees are assumed not to modify objects of types declared in this repository")
			cond = t.havocHeap(st, cond, !eff.trace, true)
			preAlloc = st.alloc
		}
		if eff.alloc {
			st.alloc = t.B.declConst(t.B.fresh("alloc@loop"), "Int")
			cond = and(cond, fmt.Sprintf("(>= %s %s)", st.alloc, preAlloc))
		}
		for _, name := range sortedKeys(eff.arrs) {
			sortA := t.descSort(eff.arrs[name])
			if _, ok := t.arrSort[name]; !ok {
				t.arrSort[name] = sortA
			}
			st.heap[name] = t.B.declConst(t.B.fresh(name+"@loop"), sortA)
			t.noteVersion(st.heap[name], st.alloc)
		}
		if eff.trace {
			oldN, oldT := st.ntrace, st.trace
			st.trace = t.B.declConst(t.B.fresh("trace@loop"), "(Array Int Event)")
			st.ntrace = t.B.declConst(t.B.fresh("ntrace@loop"), "Int")
			cond = and(cond, fmt.Sprintf("(>= %s %s)", st.ntrace, oldN),
				fmt.Sprintf("(forall ((?i Int)) (! (=> (and (<= 0 ?i) (< ?i %s)) (= (select %s ?i) (select %s ?i))) :pattern ((select %s ?i)) :qid e17_exec_381))", oldN, st.trace, oldT, st.trace))
		}
	}
	if r := f.rangeMapInfo(li); r != nil {
		mt := r.X.Type().Underlying().(*types.Map)
		st.visited[r] = t.B.declConst(t.B.fresh("visited@loop"), "(Array "+t.B.sortOf(mt.Key())+" Bool)")
	}
	f.loopEntry[li] = entryVals
	// 3. fresh phis
	var facts []string
	for _, in := range b.Instrs {
		p, ok := in.(*ssa.Phi)
		if !ok {
			continue
		}
		c := t.B.declConst(f.vname(p), t.B.sortOf(p.Type()))
		f.vals[p] = &Val{term: c}
		facts = append(facts, t.typeFacts(st, c, p.Type()))
	}
	phiHdr := func(p *ssa.Phi) string { return f.vals[p].term }
	cur := and(cond, and(facts...))
	for _, a := range f.autoInvariants(li, st, phiHdr) {
		cur = and(cur, a)
	}
	for _, c := range cls {
		env := f.invEnv(li, st, phiHdr)
		g, err := env.compileBool(c.Expr)
		if err != nil {
			return "", nil, fmt.Errorf("%s: loop %d invariant %s: %v", c.Where, li.ordinal, c.Name, err)
		}
		cur = and(cur, g)
	}
	if f.fc != nil && f.fc.Decreases[li.ordinal] != nil {
		c := f.fc.Decreases[li.ordinal]
		env := f.invEnv(li, st, phiHdr)
		v, err := env.compile(c.Expr)
		if err != nil {
			return "", nil, fmt.Errorf("%s: loop %d decreases: %v", c.Where, li.ordinal, err)
		}
		if f.loopVariant == nil {
			f.loopVariant = map[*loopInfo]string{}
		}
		f.loopVariant[li] = t.B.define(fmt.Sprintf("variant@loop%d", li.ordinal), "Int", v.term)
	}
	return cur, st, nil
}

// backEdge emits the preservation obligations.
func (f *frame) backEdge(li *loopInfo, from *ssa.BasicBlock, cond string, st *State, predIdx int) error {
	phiIn := func(p *ssa.Phi) string {
		return f.termOf(p.Edges[predIdx])
	}
	// a deferred call pushed inside the loop must not be pending when the loop repeats (it would run once per iteration)
	for b := range li.body {
		for _, in := range b.Instrs {
			if d, ok := in.(*ssa.Defer); ok && !f.t.isNoopCall(&d.Call) {
				flag, pushed := st.defers[d]
				if pushed && flag != "false" {
					f.addObl("defer-in-loop", fmt.Sprintf("loop%d", li.ordinal), cond, not(flag), nil, d.Pos(), nil)
				}
			}
		}
	}
	for _, a := range f.autoInvariants(li, st, phiIn) {
		f.addObl("inv-pres", fmt.Sprintf("loop%d.auto", li.ordinal), cond, a, nil, li.header.Instrs[0].Pos(), nil)
	}
	for _, c := range f.loopClauses(li) {
		env := f.invEnv(li, st, phiIn)
		g, err := env.compileBool(c.Expr)
		if err != nil {
			return fmt.Errorf("%s: loop %d invariant %s: %v", c.Where, li.ordinal, c.Name, err)
		}
		f.addObl("inv-pres", fmt.Sprintf("loop%d.%s", li.ordinal, c.Name), cond, g, c, li.header.Instrs[0].Pos(), invProps(f.fc, c))
	}
	// termination: where the loop repeats its variant was not negative and is smaller now
	if f.fc != nil && f.fc.Decreases[li.ordinal] != nil && f.loopVariant[li] != "" {
		c := f.fc.Decreases[li.ordinal]
		env := f.invEnv(li, st, phiIn)
		v, err := env.compile(c.Expr)
		if err != nil {
			return fmt.Errorf("%s: loop %d decreases: %v", c.Where, li.ordinal, err)
		}
		head := f.loopVariant[li]
		f.addObl("variant", fmt.Sprintf("loop%d.decreases", li.ordinal), cond, fmt.Sprintf("(and (>= %s 0) (< %s %s))", head, v.term, head), c, li.header.Instrs[0].Pos(), nil)
	}
	return nil
}

// invProps: an invariant tagged with properties serves those in addition to the function's own.
func invProps(fc *FuncContract, c *Clause) []string {
	if fc == nil || len(c.Props) == 0 {
		return nil
	}
	out := append([]string{}, fc.Props...)
	for _, p := range c.Props {
		if !hasProp(out, p) {
			out = append(out, p)
		}
	}
	return out
}
