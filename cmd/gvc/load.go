package main

// Loading /repo with the verif tag, building go/ssa, indexing functions by key.

import (
	"fmt"
	"go/types"
	"path/filepath"
	"sort"
	"strings"

	"golang.org/x/tools/go/packages"
	"golang.org/x/tools/go/ssa"
	"golang.org/x/tools/go/ssa/ssautil"
)

type Program struct {
	Pkgs       []*packages.Package
	Prog       *ssa.Program
	SSAPkgs    []*ssa.Package
	Funcs      map[string]*ssa.Function // key -> function (all functions with bodies)
	DirToPkg   map[string]string
	ByPath     map[string]*packages.Package
	RepoDir    string
	sums       *Summaries
	repoQuals  map[string]bool
	fieldCands map[fieldKey]*candSet
	fnSet      map[*ssa.Function]bool
}

// mentionsRepoType: the heap array (by its mangled name) holds objects of a type declared in the repository module.
func (p *Program) mentionsRepoType(name string) bool {
	if p.repoQuals == nil {
		p.repoQuals = map[string]bool{}
		for path := range p.ByPath {
			if strings.HasPrefix(path, repoModule) {
				p.repoQuals[pkgQualifier(path)] = true
			}
		}
		// the project's own protobuf data model: library code outside the protobuf runtime (which is modelled
		// separately, see libWriteEffects) never writes these messages
		p.repoQuals["sdc-protos/sdcpb"] = true
	}
	if i := strings.Index(name, ":"); i >= 0 {
		name = name[i+1:]
	}
	tok := strings.FieldsFunc(name, func(r rune) bool {
		return r == '*' || r == '[' || r == ']' || r == '{' || r == '}' || r == '(' || r == ')' || r == ',' || r == ' ' || r == ';'
	})
	for _, t := range tok {
		slash := strings.LastIndex(t, "/")
		dot := strings.Index(t[slash+1:], ".")
		if dot < 0 {
			continue
		}
		if p.repoQuals[t[:slash+1+dot]] {
			return true
		}
	}
	return false
}

const repoModule = "github.com/sdcio/data-server"

func LoadProgram(repo string, overlay map[string][]byte) (*Program, error) {
	cfg := &packages.Config{
		Mode: packages.NeedName | packages.NeedFiles | packages.NeedCompiledGoFiles | packages.NeedImports |
			packages.NeedTypes | packages.NeedTypesSizes | packages.NeedSyntax | packages.NeedTypesInfo,
		Dir:        repo,
		BuildFlags: []string{"-tags=verif"},
		Overlay:    overlay,
	}
	pkgs, err := packages.Load(cfg, "./pkg/...", "github.com/sdcio/sdc-protos/sdcpb", "github.com/openconfig/gnmi/proto/gnmi")
	if err != nil {
		return nil, err
	}
	var errs []string
	for _, p := range pkgs {
		for _, e := range p.Errors {
			errs = append(errs, e.Error())
		}
	}
	if len(errs) > 0 {
		return nil, fmt.Errorf("package errors: %s", strings.Join(errs, "; "))
	}
	prog, spkgs := ssautil.Packages(pkgs, ssa.GlobalDebug)
	p := &Program{Pkgs: pkgs, Prog: prog, SSAPkgs: spkgs, Funcs: map[string]*ssa.Function{}, DirToPkg: map[string]string{}, ByPath: map[string]*packages.Package{}, RepoDir: repo}
	for i, sp := range spkgs {
		if sp == nil {
			continue
		}
		sp.Build()
		pk := pkgs[i]
		p.ByPath[pk.PkgPath] = pk
		if len(pk.GoFiles) > 0 {
			p.DirToPkg[filepath.Dir(pk.GoFiles[0])] = pk.PkgPath
		}
	}
	for fn := range ssautil.AllFunctions(prog) {
		if fn.Blocks == nil || fn.Synthetic != "" {
			continue
		}
		k := FnKey(fn)
		if k != "" {
			p.Funcs[k] = fn
		}
	}
	return p, nil
}

func typeQualifier(p *types.Package) string { return pkgQualifier(p.Path()) }

// FnKey is the normalized name used in contract files.
func FnKey(fn *ssa.Function) string {
	if fn.Parent() != nil {
		// closure: parent key + $n
		pk := FnKey(fn.Parent())
		name := fn.Name() // e.g. RegisterTransaction$1
		if i := strings.LastIndex(name, "$"); i >= 0 {
			return pk + name[i:]
		}
		return pk + "$" + name
	}
	if fn.Signature.Recv() != nil {
		rt := types.TypeString(fn.Signature.Recv().Type(), typeQualifier)
		return "(" + rt + ")." + fn.Name()
	}
	if fn.Pkg == nil {
		if fn.Object() != nil && fn.Object().Pkg() != nil {
			return typeQualifier(fn.Object().Pkg()) + "." + fn.Name()
		}
		return ""
	}
	return typeQualifier(fn.Pkg.Pkg) + "." + fn.Name()
}

// FuncObjKey is the key for a *types.Func (works for functions without SSA bodies too).
func FuncObjKey(f *types.Func) string {
	sig := f.Type().(*types.Signature)
	if sig.Recv() != nil {
		rt := types.TypeString(sig.Recv().Type(), typeQualifier)
		return "(" + rt + ")." + f.Name()
	}
	if f.Pkg() == nil {
		return f.Name()
	}
	return typeQualifier(f.Pkg()) + "." + f.Name()
}

func (p *Program) FuncKeysMatching(sub string) []string {
	var out []string
	for k := range p.Funcs {
		if strings.Contains(k, sub) {
			out = append(out, k)
		}
	}
	sort.Strings(out)
	return out
}

// InRepo reports whether a function is declared in the repository under verification.
func (p *Program) InRepo(fn *ssa.Function) bool {
	if fn == nil {
		return false
	}
	pk := fn.Pkg
	if pk == nil && fn.Parent() != nil {
		pk = fn.Parent().Pkg
	}
	if pk == nil {
		// synthetic wrappers / instantiations: decide on the receiver's or origin's package
		if o := fn.Origin(); o != nil && o.Pkg != nil {
			pk = o.Pkg
		} else if obj := fn.Object(); obj != nil && obj.Pkg() != nil {
			return strings.HasPrefix(obj.Pkg().Path(), repoModule)
		} else {
			return true // unknown: do not generate the library-receiver obligation
		}
	}
	return strings.HasPrefix(pk.Pkg.Path(), repoModule)
}
