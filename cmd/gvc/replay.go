package main

// Replay on the real code: in-package test files (replay adapters) injected with `go test -overlay`.
// An adapter enumerates a stated bounded input space of the real function and evaluates the executable
// form of the contract clauses; it prints
//   REPLAY-CASES fn=<key> n=<count>
//   REPLAY-FAIL fn=<key> clause=<label> input=<description>
// Nothing is ever written into /repo.

import (
	"encoding/json"
	"fmt"
	"os"
	"os/exec"
	"path/filepath"
	"regexp"
	"strings"
	"time"
)

type ReplayAdapter struct {
	Functions  []string `json:"functions"`
	PackageDir string   `json:"package_dir"`
	File       string   `json:"file"`
	Test       string   `json:"test"`
	Bound      string   `json:"bound"`
	Properties []string `json:"properties"`
	Quick      bool     `json:"quick"` // also run in the quick tier (bounded stand-in for code outside the verified subset)
}

type ReplayResult struct {
	Adapter  string   `json:"adapter"`
	Cmd      string   `json:"cmd"`
	Bound    string   `json:"bound"`
	Cases    int      `json:"cases"`
	Failed   bool     `json:"failed"`
	Failures []string `json:"failures"`
	Other    []string `json:"failures_of_other_clauses,omitempty"`
	Output   string   `json:"output_tail"`
	FoundBy  string   `json:"found_by"`
	Broken   bool     `json:"adapter_broken,omitempty"`
	Known    int      `json:"known_finding_inputs,omitempty"`
	Seconds  float64  `json:"seconds"`
}

func loadReplayRegistry() []ReplayAdapter {
	var r []ReplayAdapter
	readJSON(filepath.Join(verifDir, "replay_adapters", "registry.json"), &r)
	return r
}

func findAdapter(reg []ReplayAdapter, fn string) *ReplayAdapter {
	for i := range reg {
		for _, f := range reg[i].Functions {
			if f == fn {
				return &reg[i]
			}
		}
	}
	return nil
}

// findAdapters: every adapter that exercises the function (several may: a unit-level one and an end-to-end one).
func findAdapters(reg []ReplayAdapter, fn string) []*ReplayAdapter {
	var out []*ReplayAdapter
	for i := range reg {
		for _, f := range reg[i].Functions {
			if f == fn {
				out = append(out, &reg[i])
				break
			}
		}
	}
	return out
}

var replayCache = map[string]*adapterRun{}

type adapterRun struct {
	out     string
	cmd     string
	seconds float64
}

func runAdapter(a *ReplayAdapter, wd string) *adapterRun {
	if r, ok := replayCache[a.File+a.Test]; ok {
		return r
	}
	src := filepath.Join(verifDir, "replay_adapters", a.File)
	dst := filepath.Join(repoDir(), a.PackageDir, "zz_verif_replay_test.go")
	ov := map[string]any{"Replace": map[string]string{dst: src}}
	ovPath := filepath.Join(wd, "overlay-"+sanitizeFile(a.Test)+".json")
	data, _ := json.Marshal(ov)
	os.WriteFile(ovPath, data, 0o644)
	args := []string{"test", "-overlay", ovPath, "-vet=off", "-count=1", "-timeout", "300s", "-run", "^" + a.Test + "$", "-v", "./" + a.PackageDir}
	cmd := exec.Command("go", args...)
	cmd.Dir = repoDir()
	cmd.Env = append(os.Environ(), "GOFLAGS=-mod=mod", "GOPROXY=off", "GOSUMDB=off", "GOTOOLCHAIN=local")
	t0 := time.Now()
	out, _ := cmd.CombinedOutput()
	r := &adapterRun{out: string(out), cmd: "cd " + repoDir() + " && go " + strings.Join(args, " "), seconds: time.Since(t0).Seconds()}
	replayCache[a.File+a.Test] = r
	return r
}

var reFail = regexp.MustCompile(`REPLAY-FAIL fn=(\S+) clause=(\S+) (.*)`)
var reCases = regexp.MustCompile(`REPLAY-CASES fn=(\S+) n=(\d+)`)

func parseAdapter(r *adapterRun, fn, label string) *ReplayResult {
	res := &ReplayResult{Cmd: r.cmd, Seconds: round3(r.seconds), FoundBy: "bounded-search"}
	for _, line := range strings.Split(r.out, "\n") {
		if m := reCases.FindStringSubmatch(line); m != nil && m[1] == fn {
			var n int
			fmt.Sscanf(m[2], "%d", &n)
			res.Cases += n
		}
		if m := reFail.FindStringSubmatch(line); m != nil && m[1] == fn {
			if strings.HasSuffix(m[2], ".known") {
				// input inside the excused region of a known finding: never counts as a new failure
				res.Known++
				continue
			}
			if label == "" || m[2] == label {
				if len(res.Failures) < 10 {
					res.Failures = append(res.Failures, strings.TrimSpace(line))
				}
				res.Failed = true
			} else if len(res.Other) < 10 {
				res.Other = append(res.Other, strings.TrimSpace(line))
			}
		}
	}
	if !strings.Contains(r.out, "REPLAY-CASES") {
		res.Broken = true
	}
	tail := r.out
	if len(tail) > 3000 {
		tail = tail[len(tail)-3000:]
	}
	res.Output = tail
	return res
}

// runReplay looks for a concrete failing input of the real function for a failed obligation.
func runReplay(reg []ReplayAdapter, o *Obligation, prop string, wd string) *ReplayResult {
	as := findAdapters(reg, o.Fn)
	if len(as) == 0 {
		return nil
	}
	label := o.Label
	if o.Kind != "ensures" {
		// safety obligations replay as panics; invariants and call preconditions have no executable form of their own
		switch o.Kind {
		case "nil", "bounds", "assert", "mapnil", "div", "panic":
			label = "panic"
		default:
			label = ""
		}
	}
	var first, weaker *ReplayResult
	for _, a := range as {
		if !hasProp(a.Properties, prop) && len(as) > 1 {
			continue
		}
		r := runAdapter(a, wd)
		res := parseAdapter(r, o.Fn, label)
		res.Adapter = a.File + ":" + a.Test
		res.Bound = a.Bound
		if label == "" {
			// any failing clause of the function counts for invariant / frame / precondition obligations
			res.Failed = len(res.Failures) > 0
		}
		if res.Failed {
			res.FoundBy = "input violating the executable form of the failed clause (or, for invariants and preconditions, of a clause of the same function)"
			return res
		}
		if first == nil {
			first = res
		}
		if weaker == nil && len(res.Other) > 0 {
			weaker = res
		}
	}
	if weaker != nil {
		// no input violates the clause of the same name, but the function misbehaves on these inputs: the executable
		// clauses and the contract clauses are not one to one (one behaviour may be stated by several clauses)
		weaker.Failed = true
		weaker.Failures = weaker.Other
		weaker.FoundBy = "input violating another executable clause of the same function"
		return weaker
	}
	return first
}

// runStandins executes every adapter of the property's functions (thorough tier): the executable contracts
// must hold on the whole bounded space.
func runStandins(reg []ReplayAdapter, pr *PropertyRun, prop string, wd string, quickOnly bool) []map[string]any {
	var out []map[string]any
	done := map[string]bool{}
	// functions under contract for this property, plus functions only covered by an adapter registered for it
	fns := append([]string{}, pr.Funcs...)
	for _, a := range reg {
		if hasProp(a.Properties, prop) {
			for _, f := range a.Functions {
				fns = append(fns, f)
			}
		}
	}
	for _, fn := range fns {
		// every adapter registered for the function and the property (a function can be exercised by several)
		for _, a := range findAdapters(reg, fn) {
			if !hasProp(a.Properties, prop) {
				continue
			}
			if quickOnly && !a.Quick {
				continue
			}
			key := fn + "|" + a.File + ":" + a.Test
			if done[key] {
				continue
			}
			done[key] = true
			r := runAdapter(a, wd)
			res := parseAdapter(r, fn, "")
			fails := res.Failures
			out = append(out, map[string]any{"function": fn, "adapter": a.File + ":" + a.Test, "bound": a.Bound, "cases": res.Cases, "failed": len(fails) > 0, "failures": fails, "label": "bounded (not counted as proved)", "adapter_broken": res.Broken, "known_finding_inputs": res.Known})
			if res.Broken {
				fmt.Printf("gvc: replay adapter %s did not complete:\n%s\n", a.Test, res.Output)
			}
		}
	}
	return out
}

func cmdReplay(args []string) int {
	if len(args) < 1 {
		fmt.Println("usage: gvc replay <replay.json>")
		return 2
	}
	var rec map[string]any
	if err := readJSON(args[0], &rec); err != nil {
		fmt.Println(err)
		return 2
	}
	fmt.Printf("obligation: %v\nverifier: %v\n", rec["obligation"], rec["verifier_status"])
	if rp, ok := rec["replay"].(map[string]any); ok {
		fmt.Printf("replay command: %v\n", rp["cmd"])
		cmdline, _ := rp["cmd"].(string)
		if i := strings.Index(cmdline, "&& go "); i >= 0 {
			// re-run
			ob, _ := rec["obligation"].(string)
			fn := ob
			if j := strings.Index(ob, "#"); j >= 0 {
				fn = ob[:j]
			}
			reg := loadReplayRegistry()
			if a := findAdapter(reg, fn); a != nil {
				wd := workDir()
				defer os.RemoveAll(wd)
				r := runAdapter(a, wd)
				fmt.Println(r.out)
				if strings.Contains(r.out, "REPLAY-FAIL") {
					return 1
				}
				return 0
			}
		}
	}
	fmt.Println("no executable replay for this obligation (no-failing-input-found); the file carries the solver output")
	return 1
}
