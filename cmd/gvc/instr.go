package main

// Semantics of individual go/ssa instructions.

import (
	"fmt"
	"go/token"
	"go/types"
	"strings"

	"golang.org/x/tools/go/ssa"
)

func (f *frame) def(v ssa.Value, term string) {
	f.vals[v] = &Val{term: f.t.B.define(f.vname(v), f.t.B.sortOf(v.Type()), term)}
}

func (f *frame) havocVal(v ssa.Value, st *State, cur string) string {
	c := f.t.B.declConst(f.vname(v), f.t.B.sortOf(v.Type()))
	f.vals[v] = &Val{term: c}
	return and(cur, f.t.typeFacts(st, c, v.Type()))
}

func exprText(f *frame, v ssa.Value) string {
	// a stable, human readable label for an operand: source variable name if any, else SSA kind
	switch x := v.(type) {
	case *ssa.Parameter:
		return x.Name()
	case *ssa.Phi:
		if x.Comment != "" {
			return x.Comment
		}
	case *ssa.FieldAddr:
		_, T, ok := isStructPtr(x.X.Type())
		if ok {
			return exprText(f, x.X) + "." + T.Underlying().(*types.Struct).Field(x.Field).Name()
		}
	case *ssa.UnOp:
		if x.Op == token.MUL {
			return exprText(f, x.X)
		}
	case *ssa.Call:
		if fn := x.Call.StaticCallee(); fn != nil {
			return fn.Name() + "()"
		}
		if x.Call.IsInvoke() {
			return x.Call.Method.Name() + "()"
		}
	case *ssa.Extract:
		return exprText(f, x.Tuple) + fmt.Sprintf("#%d", x.Index)
	case *ssa.IndexAddr:
		return exprText(f, x.X) + "[]"
	case *ssa.Alloc:
		if x.Comment != "" {
			return x.Comment
		}
	case *ssa.Const:
		return "const"
	case *ssa.FreeVar:
		return x.Name()
	case *ssa.TypeAssert:
		return exprText(f, x.X) + ".(T)"
	case *ssa.Lookup:
		return exprText(f, x.X) + "[k]"
	}
	// fall back to a DebugRef-associated name
	for name, vs := range f.names {
		for _, y := range vs {
			if y == v {
				return name
			}
		}
	}
	return "tmp"
}

func (f *frame) exec(in ssa.Instruction, st *State, cur string) (string, error) {
	t := f.t
	B := t.B
	switch x := in.(type) {
	case *ssa.DebugRef:
		return cur, nil

	case *ssa.Alloc:
		pt := x.Type().(*types.Pointer).Elem()
		if _, isS := pt.Underlying().(*types.Struct); isS {
			r := f.allocRef(st, f.vname(x))
			f.zeroStruct(st, r, pt)
			f.vals[x] = &Val{term: r}
			return cur, nil
		}
		if arr, ok := pt.Underlying().(*types.Array); ok {
			r := f.allocRef(st, f.vname(x))
			es := arrOf(arrOf(B.sortOf(arr.Elem())))
			name := elemArr(arr.Elem())
			t.set(st, name, es, fmt.Sprintf("(store %s %s ((as const %s) %s))", t.get(st, name, es), r, arrOf(B.sortOf(arr.Elem())), B.zero(arr.Elem())))
			f.vals[x] = &Val{term: r}
			return cur, nil
		}
		if !x.Heap {
			lv := &LVal{kind: lvLocal, arr: f.localName(x), typ: pt}
			t.store(st, lv, B.zero(pt))
			f.vals[x] = &Val{lv: lv}
			return cur, nil
		}
		r := f.allocRef(st, f.vname(x))
		lv := &LVal{kind: lvCell, arr: cellArr(pt), obj: r, typ: pt}
		t.store(st, lv, B.zero(pt))
		f.vals[x] = &Val{lv: lv, term: r}
		return cur, nil

	case *ssa.FieldAddr:
		_, T, ok := isStructPtr(x.X.Type())
		if !ok {
			return cur, fmt.Errorf("FieldAddr on non struct pointer")
		}
		obj := f.termOf(x.X)
		f.safetyObl("nil", exprText(f, x.X), cur, fmt.Sprintf("(not (= %s 0))", obj), x.Pos())
		cur = and(cur, fmt.Sprintf("(not (= %s 0))", obj))
		fld := T.Underlying().(*types.Struct).Field(x.Field)
		if _, isS := fld.Type().Underlying().(*types.Struct); isS {
			f.vals[x] = &Val{term: f.subObj(obj, T, fld.Name())}
			return cur, nil
		}
		f.vals[x] = &Val{lv: &LVal{kind: lvField, arr: fieldArr(T, fld.Name()), obj: obj, typ: fld.Type()}}
		return cur, nil

	case *ssa.Field:
		T := x.X.Type()
		fld := T.Underlying().(*types.Struct).Field(x.Field)
		B.sortOf(T)
		f.def(x, fmt.Sprintf("(%s %s)", B.structAcc(T, fld.Name()), f.termOf(x.X)))
		return cur, nil

	case *ssa.IndexAddr:
		idx := f.termOf(x.Index)
		switch u := x.X.Type().Underlying().(type) {
		case *types.Slice:
			s := f.termOf(x.X)
			goal := fmt.Sprintf("(and (<= 0 %s) (< %s (s_len %s)))", idx, idx, s)
			f.safetyObl("bounds", exprText(f, x.X), cur, goal, x.Pos())
			cur = and(cur, goal)
			base, off := fmt.Sprintf("(s_base %s)", s), fmt.Sprintf("(+ (s_off %s) %s)", s, idx)
			if _, isS := u.Elem().Underlying().(*types.Struct); isS {
				fn := B.declFun("selem:"+mangleType(u.Elem()), []string{"Int", "Int"}, "Int")
				f.vals[x] = &Val{term: fmt.Sprintf("(%s %s %s)", fn, base, off)}
				return cur, nil
			}
			f.vals[x] = &Val{lv: &LVal{kind: lvElem, arr: elemArr(u.Elem()), obj: base, idx: off, typ: u.Elem()}}
			return cur, nil
		case *types.Pointer:
			arr := u.Elem().Underlying().(*types.Array)
			base := f.termOf(x.X)
			goal := fmt.Sprintf("(and (<= 0 %s) (< %s %d))", idx, idx, arr.Len())
			if _, isConst := x.Index.(*ssa.Const); !isConst {
				f.safetyObl("bounds", exprText(f, x.X), cur, goal, x.Pos())
			}
			cur = and(cur, goal)
			if _, isS := arr.Elem().Underlying().(*types.Struct); isS {
				fn := B.declFun("selem:"+mangleType(arr.Elem()), []string{"Int", "Int"}, "Int")
				f.vals[x] = &Val{term: fmt.Sprintf("(%s %s %s)", fn, base, idx)}
				return cur, nil
			}
			f.vals[x] = &Val{lv: &LVal{kind: lvElem, arr: elemArr(arr.Elem()), obj: base, idx: idx, typ: arr.Elem()}}
			return cur, nil
		}
		return cur, fmt.Errorf("IndexAddr on %s", x.X.Type())

	case *ssa.Index:
		idx := f.termOf(x.Index)
		switch u := x.X.Type().Underlying().(type) {
		case *types.Basic: // string
			s := f.termOf(x.X)
			goal := fmt.Sprintf("(and (<= 0 %s) (< %s (strlen %s)))", idx, idx, s)
			f.safetyObl("bounds", exprText(f, x.X), cur, goal, x.Pos())
			cur = and(cur, goal)
			f.def(x, fmt.Sprintf("(str_at %s %s)", s, idx))
			cur = and(cur, fmt.Sprintf("(and (<= 0 %s) (<= %s 255))", f.vals[x].term, f.vals[x].term))
			return cur, nil
		case *types.Array:
			goal := fmt.Sprintf("(and (<= 0 %s) (< %s %d))", idx, idx, u.Len())
			f.safetyObl("bounds", exprText(f, x.X), cur, goal, x.Pos())
			cur = and(cur, goal)
			f.def(x, fmt.Sprintf("(select %s %s)", f.termOf(x.X), idx))
			return cur, nil
		}
		return f.havocVal(x, st, cur), nil

	case *ssa.UnOp:
		switch x.Op {
		case token.MUL: // load
			pt := x.X.Type().Underlying().(*types.Pointer).Elem()
			if _, isS := pt.Underlying().(*types.Struct); isS {
				ref := f.termOf(x.X)
				f.safetyObl("nil", exprText(f, x.X), cur, fmt.Sprintf("(not (= %s 0))", ref), x.Pos())
				cur = and(cur, fmt.Sprintf("(not (= %s 0))", ref))
				f.def(x, f.loadStruct(st, ref, pt))
				return cur, nil
			}
			if arrT, isA := pt.Underlying().(*types.Array); isA {
				ref := f.termOf(x.X)
				es := arrOf(arrOf(B.sortOf(arrT.Elem())))
				f.def(x, fmt.Sprintf("(select %s %s)", t.get(st, elemArr(arrT.Elem()), es), ref))
				return cur, nil
			}
			lv := f.lvalOf(x.X)
			if lv.kind == lvCell {
				f.safetyObl("nil", exprText(f, x.X), cur, fmt.Sprintf("(not (= %s 0))", lv.obj), x.Pos())
				cur = and(cur, fmt.Sprintf("(not (= %s 0))", lv.obj))
			}
			f.def(x, t.load(st, lv))
			cur = and(cur, t.typeFactsA(t.lastAlloc, f.vals[x].term, x.Type()))
			return cur, nil
		case token.NOT:
			f.def(x, not(f.termOf(x.X)))
			return cur, nil
		case token.SUB:
			if B.sortOf(x.Type()) == "Int" {
				f.def(x, fmt.Sprintf("(- %s)", f.termOf(x.X)))
				f.overflowObl(x, x.Type(), cur, "neg")
				return cur, nil
			}
			return f.havocVal(x, st, cur), nil
		case token.ARROW:
			// channel receive: havoc
			if x.CommaOk {
				v := B.declConst(f.vname(x)+".v", B.sortOf(x.Type().(*types.Tuple).At(0).Type()))
				ok := B.declConst(f.vname(x)+".ok", "Bool")
				cur = and(cur, t.typeFacts(st, v, x.Type().(*types.Tuple).At(0).Type()))
				if B.sortOf(x.Type().(*types.Tuple).At(0).Type()) == "Int" {
					cur = and(cur, fmt.Sprintf("(=> (and (%s %s) %s) (not (= %s 0)))", B.declFun("nonnilchan", []string{"Int"}, "Bool"), f.termOf(x.X), ok, v))
				}
				f.vals[x] = &Val{tuple: []*Val{{term: v}, {term: ok}}}
				return cur, nil
			}
			return f.havocVal(x, st, cur), nil
		}
		return f.havocVal(x, st, cur), nil

	case *ssa.BinOp:
		return f.binop(x, st, cur)

	case *ssa.Store:
		pt := x.Addr.Type().Underlying().(*types.Pointer).Elem()
		if _, isS := pt.Underlying().(*types.Struct); isS {
			ref := f.termOf(x.Addr)
			f.safetyObl("nil", exprText(f, x.Addr), cur, fmt.Sprintf("(not (= %s 0))", ref), x.Pos())
			cur = and(cur, fmt.Sprintf("(not (= %s 0))", ref))
			f.storeStruct(st, ref, pt, f.termOf(x.Val))
			return cur, nil
		}
		if arrT, isA := pt.Underlying().(*types.Array); isA {
			ref := f.termOf(x.Addr)
			es := arrOf(arrOf(B.sortOf(arrT.Elem())))
			name := elemArr(arrT.Elem())
			t.set(st, name, es, fmt.Sprintf("(store %s %s %s)", t.get(st, name, es), ref, f.termOf(x.Val)))
			return cur, nil
		}
		lv := f.lvalOf(x.Addr)
		if lv.kind == lvCell {
			f.safetyObl("nil", exprText(f, x.Addr), cur, fmt.Sprintf("(not (= %s 0))", lv.obj), x.Pos())
			cur = and(cur, fmt.Sprintf("(not (= %s 0))", lv.obj))
		}
		t.store(st, lv, f.termOf(x.Val))
		return cur, nil

	case *ssa.Phi:
		return cur, nil

	case *ssa.ChangeType:
		f.vals[x] = &Val{term: f.termOf(x.X)}
		if v := f.valOf(x.X); v.closureFn != nil {
			f.vals[x].closureFn, f.vals[x].closureBind = v.closureFn, v.closureBind
		}
		return cur, nil

	case *ssa.ChangeInterface:
		f.vals[x] = &Val{term: f.termOf(x.X)}
		return cur, nil

	case *ssa.Convert:
		return f.convert(x, st, cur)

	case *ssa.MakeInterface:
		f.def(x, f.makeIface(x.X.Type(), f.termOf(x.X)))
		return cur, nil

	case *ssa.TypeAssert:
		return f.typeAssert(x, st, cur)

	case *ssa.Extract:
		tv := f.valOf(x.Tuple)
		if tv.tuple != nil && x.Index < len(tv.tuple) {
			f.vals[x] = tv.tuple[x.Index]
			return cur, nil
		}
		return f.havocVal(x, st, cur), nil

	case *ssa.Slice:
		return f.sliceOp(x, st, cur)

	case *ssa.MakeSlice:
		el := x.Type().Underlying().(*types.Slice).Elem()
		r := f.allocRef(st, f.vname(x)+".base")
		n, c := f.termOf(x.Len), f.termOf(x.Cap)
		goal := fmt.Sprintf("(and (<= 0 %s) (<= %s %s))", n, n, c)
		f.safetyObl("bounds", "make", cur, goal, x.Pos())
		cur = and(cur, goal)
		es := arrOf(arrOf(B.sortOf(el)))
		name := elemArr(el)
		t.set(st, name, es, fmt.Sprintf("(store %s %s ((as const %s) %s))", t.get(st, name, es), r, arrOf(B.sortOf(el)), B.zero(el)))
		f.def(x, fmt.Sprintf("(mk_slice %s 0 %s %s)", r, n, c))
		return cur, nil

	case *ssa.MakeMap:
		mt := x.Type().Underlying().(*types.Map)
		r := f.allocRef(st, f.vname(x))
		ks, vs := B.sortOf(mt.Key()), B.sortOf(mt.Elem())
		ps := arrOf("(Array " + ks + " Bool)")
		t.set(st, mapPArr(mt), ps, fmt.Sprintf("(store %s %s ((as const (Array %s Bool)) false))", t.get(st, mapPArr(mt), ps), r, ks))
		_ = vs
		f.vals[x] = &Val{term: r}
		return cur, nil

	case *ssa.MakeChan:
		r := f.allocRef(st, f.vname(x))
		f.vals[x] = &Val{term: r}
		return cur, nil

	case *ssa.MakeClosure:
		r := f.allocRef(st, f.vname(x))
		fn := x.Fn.(*ssa.Function)
		v := &Val{term: r, closureFn: fn}
		cf := B.declFun("closure_fn", []string{"Int"}, "Int")
		cur = and(cur, fmt.Sprintf("(= (%s %s) %s)", cf, r, t.closureID(fn)))
		for i, b := range x.Bindings {
			bv := f.valOf(b)
			v.closureBind = append(v.closureBind, bv)
			bf := B.declFun(fmt.Sprintf("closure_bind:%s:%d", FnKey(fn), i), []string{"Int"}, "Int")
			if B.sortOf(b.Type()) == "Int" {
				cur = and(cur, fmt.Sprintf("(= (%s %s) %s)", bf, r, f.termOfVal(bv)))
			}
		}
		f.vals[x] = v
		return cur, nil

	case *ssa.Lookup:
		return f.lookup(x, st, cur)

	case *ssa.MapUpdate:
		mt := x.Map.Type().Underlying().(*types.Map)
		m := f.termOf(x.Map)
		f.safetyObl("mapnil", exprText(f, x.Map), cur, fmt.Sprintf("(not (= %s 0))", m), x.Pos())
		cur = and(cur, fmt.Sprintf("(not (= %s 0))", m))
		ks, vs := B.sortOf(mt.Key()), B.sortOf(mt.Elem())
		ps, vsA := arrOf("(Array "+ks+" Bool)"), arrOf("(Array "+ks+" "+vs+")")
		k := f.termOf(x.Key)
		pa, va := t.get(st, mapPArr(mt), ps), t.get(st, mapVArr(mt), vsA)
		t.set(st, mapPArr(mt), ps, fmt.Sprintf("(store %s %s (store (select %s %s) %s true))", pa, m, pa, m, k))
		t.set(st, mapVArr(mt), vsA, fmt.Sprintf("(store %s %s (store (select %s %s) %s %s))", va, m, va, m, k, f.termOf(x.Value)))
		return cur, nil

	case *ssa.Range:
		if mt, ok := x.X.Type().Underlying().(*types.Map); ok {
			st.visited[x] = fmt.Sprintf("((as const (Array %s Bool)) false)", B.sortOf(mt.Key()))
		}
		f.vals[x] = &Val{term: "0"}
		return cur, nil

	case *ssa.Next:
		return f.next(x, st, cur)

	case *ssa.Call:
		return f.call(x, x.Common(), st, cur)

	case *ssa.Go:
		B.note("go statement: spawned function not executed (%s)", f.fn.Name())
		return cur, nil

	case *ssa.Defer:
		if t.isNoopCall(&x.Call) {
			return cur, nil
		}
		st.defers[x] = "true"
		// make sure argument values are computed now
		for _, a := range x.Call.Args {
			f.valOf(a)
		}
		return cur, nil

	case *ssa.RunDefers:
		return f.runDefers(st, cur)

	case *ssa.Send:
		// a channel send is a ghost trace event Send(channel, value); blocking is not modelled
		v := "0"
		if B.sortOf(x.X.Type()) == "Int" {
			v = f.termOf(x.X)
		}
		st.trace = B.define("trace", "(Array Int Event)", fmt.Sprintf("(store %s %s (ev_Send %s %s))", st.trace, st.ntrace, f.termOf(x.Chan), v))
		st.ntrace = B.define("ntrace", "Int", fmt.Sprintf("(+ %s 1)", st.ntrace))
		return cur, nil

	case *ssa.Select:
		// nondeterministic choice
		idx := B.declConst(f.vname(x)+".idx", "Int")
		ok := B.declConst(f.vname(x)+".ok", "Bool")
		tup := []*Val{{term: idx}, {term: ok}}
		lo := 0
		if !x.Blocking {
			lo = -1
		}
		cur = and(cur, fmt.Sprintf("(and (<= %s %s) (< %s %d))", smtInt(int64(lo)), idx, idx, len(x.States)))
		for _, s := range x.States {
			if s.Dir == types.RecvOnly {
				et := s.Chan.Type().Underlying().(*types.Chan).Elem()
				v := B.declConst(B.fresh(f.vname(x)+".recv"), B.sortOf(et))
				tup = append(tup, &Val{term: v})
				cur = and(cur, t.typeFacts(st, v, et))
				if B.sortOf(et) == "Int" {
					// a channel declared to carry no nil values (nonnilchan, an assumed contract on its producer)
					cur = and(cur, fmt.Sprintf("(=> (and (%s %s) %s) (not (= %s 0)))", B.declFun("nonnilchan", []string{"Int"}, "Bool"), f.termOf(s.Chan), ok, v))
				}
			}
		}
		f.vals[x] = &Val{tuple: tup}
		if f.top && f.fc != nil && f.fc.ChanEvents {
			// the chosen communication is recorded: Send(channel, value) / Recv(channel, value) for reference-typed elements
			ti := 2
			for k, s := range x.States {
				var ev, when string
				switch s.Dir {
				case types.SendOnly:
					if B.sortOf(s.Send.Type()) == "Int" {
						ev = fmt.Sprintf("(ev_Send %s %s)", f.termOf(s.Chan), f.termOf(s.Send))
						when = fmt.Sprintf("(= %s %d)", idx, k)
					}
				case types.RecvOnly:
					v := tup[ti]
					ti++
					if B.sortOf(s.Chan.Type().Underlying().(*types.Chan).Elem()) == "Int" {
						ev = fmt.Sprintf("(ev_Recv %s %s)", f.termOf(s.Chan), v.term)
						when = fmt.Sprintf("(and (= %s %d) %s)", idx, k, ok)
						if f.fc.WakeEvents {
							ev = fmt.Sprintf("(ev_Recv %s (ite %s %s 0))", f.termOf(s.Chan), ok, v.term)
							when = fmt.Sprintf("(= %s %d)", idx, k)
						}
					} else if f.fc.WakeEvents {
						ev = fmt.Sprintf("(ev_Recv %s 0)", f.termOf(s.Chan))
						when = fmt.Sprintf("(= %s %d)", idx, k)
					}
				}
				if ev == "" {
					continue
				}
				st.trace = B.define("trace", "(Array Int Event)", fmt.Sprintf("(ite %s (store %s %s %s) %s)", when, st.trace, st.ntrace, ev, st.trace))
				st.ntrace = B.define("ntrace", "Int", fmt.Sprintf("(ite %s (+ %s 1) %s)", when, st.ntrace, st.ntrace))
			}
		}
		return cur, nil

	case *ssa.If:
		c := f.termOf(x.Cond)
		b := x.Block()
		f.flow(b, b.Succs[0], and(cur, c), st.clone(), 0)
		f.flow(b, b.Succs[1], and(cur, not(c)), st, 1)
		return cur, nil

	case *ssa.Jump:
		b := x.Block()
		f.flow(b, b.Succs[0], cur, st, 0)
		return cur, nil

	case *ssa.Return:
		var vals []*Val
		for _, r := range x.Results {
			v := f.valOf(r)
			if v.term == "" {
				v = &Val{term: f.termOf(r), lv: v.lv, closureFn: v.closureFn, closureBind: v.closureBind}
			}
			vals = append(vals, v)
		}
		f.rets = append(f.rets, retInfo{cond: cur, st: st, vals: vals, ret: x})
		return cur, nil

	case *ssa.Panic:
		f.safetyObl("panic", "explicit", cur, "false", x.Pos())
		return "false", nil

	case *ssa.SliceToArrayPointer, *ssa.MultiConvert:
		B.note("unsupported instruction %T in %s", in, f.fn.Name())
		if v, ok := in.(ssa.Value); ok {
			return f.havocVal(v, st, cur), nil
		}
		return cur, nil
	}
	if v, ok := in.(ssa.Value); ok {
		B.note("unsupported instruction %T in %s", in, f.fn.Name())
		return f.havocVal(v, st, cur), nil
	}
	return cur, fmt.Errorf("unsupported instruction %T", in)
}

// flow propagates control to a successor, handling back edges.
func (f *frame) flow(from, to *ssa.BasicBlock, cond string, st *State, succIdx int) {
	if li := f.loops[to]; li != nil && to.Dominates(from) {
		// back edge: find pred index (k-th occurrence)
		occ := 0
		for i := 0; i < succIdx; i++ {
			if from.Succs[i] == to {
				occ++
			}
		}
		pi := -1
		for j, p := range to.Preds {
			if p == from {
				if occ == 0 {
					pi = j
					break
				}
				occ--
			}
		}
		c := f.t.B.define(fmt.Sprintf("f%d.back", f.id), "Bool", cond)
		if err := f.backEdge(li, from, c, st, pi); err != nil {
			f.t.unsupported = append(f.t.unsupported, err.Error())
		}
		return
	}
	c := f.t.B.define(fmt.Sprintf("f%d.edge%d_%d", f.id, from.Index, to.Index), "Bool", cond)
	f.addEdge(from, to, c, st)
}

func (f *frame) overflowObl(v ssa.Value, tp types.Type, cur, what string) {
	if lo, hi, ok := intRange(tp); ok {
		term := f.vals[v].term
		f.safetyObl("ovf", what, cur, fmt.Sprintf("(and (<= %s %s) (<= %s %s))", lo, term, term, hi), v.Pos())
	}
}

func (f *frame) binop(x *ssa.BinOp, st *State, cur string) (string, error) {
	B := f.t.B
	a, b := f.termOf(x.X), f.termOf(x.Y)
	xs := B.sortOf(x.X.Type())
	switch x.Op {
	case token.EQL:
		f.def(x, f.eqTerm(x.X.Type(), x.Y.Type(), a, b))
		return cur, nil
	case token.NEQ:
		f.def(x, not(f.eqTerm(x.X.Type(), x.Y.Type(), a, b)))
		return cur, nil
	}
	switch xs {
	case "Int":
		switch x.Op {
		case token.ADD, token.SUB, token.MUL:
			op := map[token.Token]string{token.ADD: "+", token.SUB: "-", token.MUL: "*"}[x.Op]
			f.def(x, fmt.Sprintf("(%s %s %s)", op, a, b))
			f.overflowObl(x, x.Type(), cur, x.Op.String())
			return cur, nil
		case token.QUO, token.REM:
			f.safetyObl("div", exprText(f, x.Y), cur, fmt.Sprintf("(not (= %s 0))", b), x.Pos())
			cur = and(cur, fmt.Sprintf("(not (= %s 0))", b))
			// Go truncates toward zero
			qd := fmt.Sprintf("(ite (>= %s 0) (ite (> %s 0) (div %s %s) (- (div %s (- %s)))) (ite (> %s 0) (- (div (- %s) %s)) (div (- %s) (- %s))))", a, b, a, b, a, b, b, a, b, a, b)
			if x.Op == token.QUO {
				f.def(x, qd)
			} else {
				f.def(x, fmt.Sprintf("(- %s (* %s %s))", a, b, qd))
			}
			return cur, nil
		case token.LSS, token.LEQ, token.GTR, token.GEQ:
			op := map[token.Token]string{token.LSS: "<", token.LEQ: "<=", token.GTR: ">", token.GEQ: ">="}[x.Op]
			f.def(x, fmt.Sprintf("(%s %s %s)", op, a, b))
			return cur, nil
		default:
			fn := B.declFun("bitop:"+x.Op.String(), []string{"Int", "Int"}, "Int")
			f.def(x, fmt.Sprintf("(%s %s %s)", fn, a, b))
			return and(cur, f.t.typeFacts(st, f.vals[x].term, x.Type())), nil
		}
	case "Bool":
		switch x.Op {
		case token.AND, token.LAND:
			f.def(x, and(a, b))
			return cur, nil
		case token.OR, token.LOR:
			f.def(x, or(a, b))
			return cur, nil
		}
	case "Str":
		switch x.Op {
		case token.ADD:
			f.def(x, fmt.Sprintf("(str_concat %s %s)", a, b))
			return cur, nil
		case token.LSS:
			f.def(x, fmt.Sprintf("(str_lt %s %s)", a, b))
			return cur, nil
		case token.GTR:
			f.def(x, fmt.Sprintf("(str_lt %s %s)", b, a))
			return cur, nil
		case token.LEQ:
			f.def(x, fmt.Sprintf("(not (str_lt %s %s))", b, a))
			return cur, nil
		case token.GEQ:
			f.def(x, fmt.Sprintf("(not (str_lt %s %s))", a, b))
			return cur, nil
		}
	case "Flt":
		fn := B.declFun("fltop:"+x.Op.String(), []string{"Flt", "Flt"}, B.sortOf(x.Type()))
		f.def(x, fmt.Sprintf("(%s %s %s)", fn, a, b))
		return cur, nil
	}
	return f.havocVal(x, st, cur), nil
}

func (f *frame) eqTerm(tx, ty types.Type, a, b string) string {
	_, xi := tx.Underlying().(*types.Interface)
	_, yi := ty.Underlying().(*types.Interface)
	if xi && !yi {
		b = f.makeIface(ty, b)
	} else if yi && !xi {
		a = f.makeIface(tx, a)
	}
	if _, isSl := tx.Underlying().(*types.Slice); isSl {
		// only comparison with nil is legal
		if a == "nil_slice" {
			return fmt.Sprintf("(= (s_base %s) 0)", b)
		}
		return fmt.Sprintf("(= (s_base %s) 0)", a)
	}
	return eq(a, b)
}

func (f *frame) makeIface(tp types.Type, v string) string {
	B := f.t.B
	if _, isI := tp.Underlying().(*types.Interface); isI {
		return v
	}
	if b, ok := tp.Underlying().(*types.Basic); ok && b.Kind() == types.UntypedNil {
		return "nil_iface"
	}
	tag := B.typeID(tp)
	switch B.sortOf(tp) {
	case "Int":
		return fmt.Sprintf("(mk_iface %s %s)", tag, v)
	case "Bool":
		return fmt.Sprintf("(mk_iface %s (ite %s 1 0))", tag, v)
	case "Str":
		return fmt.Sprintf("(mk_iface %s (box_Str %s))", tag, v)
	case "Flt":
		return fmt.Sprintf("(mk_iface %s (box_Flt %s))", tag, v)
	}
	s := B.sortOf(tp)
	bx := B.declFun("box:"+s, []string{s}, "Int")
	ub := B.declFun("unbox:"+s, []string{"Int"}, s)
	B.rawDecl("boxax:"+s, fmt.Sprintf("(assert (forall ((x %s)) (! (= (%s (%s x)) x) :pattern ((%s x)) :qid e1_instr_615)))", s, ub, bx, bx))
	return fmt.Sprintf("(mk_iface %s (%s %s))", tag, bx, v)
}

func (f *frame) unbox(tp types.Type, iface string) string {
	B := f.t.B
	switch B.sortOf(tp) {
	case "Int":
		return fmt.Sprintf("(i_val %s)", iface)
	case "Bool":
		return fmt.Sprintf("(= (i_val %s) 1)", iface)
	case "Str":
		return fmt.Sprintf("(unbox_Str (i_val %s))", iface)
	case "Flt":
		return fmt.Sprintf("(unbox_Flt (i_val %s))", iface)
	}
	s := B.sortOf(tp)
	bx := B.declFun("box:"+s, []string{s}, "Int")
	ub := B.declFun("unbox:"+s, []string{"Int"}, s)
	B.rawDecl("boxax:"+s, fmt.Sprintf("(assert (forall ((x %s)) (! (= (%s (%s x)) x) :pattern ((%s x)) :qid e2_instr_634)))", s, ub, bx, bx))
	return fmt.Sprintf("(%s (i_val %s))", ub, iface)
}

// implements gives a term stating that dynamic type tag implements interface I.
func (f *frame) implementsTerm(tag string, I types.Type) string {
	B := f.t.B
	if it, ok := I.Underlying().(*types.Interface); ok && it.NumMethods() == 0 {
		return "true"
	}
	fn := B.declFun("impl:"+mangleType(I), []string{"Int"}, "Bool")
	return fmt.Sprintf("(%s %s)", fn, tag)
}

func (f *frame) typeAssert(x *ssa.TypeAssert, st *State, cur string) (string, error) {
	B := f.t.B
	v := f.termOf(x.X)
	var okT, valT string
	if _, isI := x.AssertedType.Underlying().(*types.Interface); isI {
		okT = and(fmt.Sprintf("(not (= (i_tag %s) 0))", v), f.implementsTerm(fmt.Sprintf("(i_tag %s)", v), x.AssertedType))
		// static knowledge: if source static type is an interface that embeds the asserted one, ok iff non-nil
		if types.AssignableTo(x.X.Type(), x.AssertedType) {
			okT = fmt.Sprintf("(not (= (i_tag %s) 0))", v)
		}
		valT = v
	} else {
		okT = fmt.Sprintf("(= (i_tag %s) %s)", v, B.typeID(x.AssertedType))
		valT = f.unbox(x.AssertedType, v)
	}
	if x.CommaOk {
		okC := B.define(f.vname(x)+".ok", "Bool", okT)
		valC := B.define(f.vname(x)+".v", B.sortOf(x.AssertedType), ite(okC, valT, B.zero(x.AssertedType)))
		f.vals[x] = &Val{tuple: []*Val{{term: valC}, {term: okC}}}
		return and(cur, implies(okC, f.t.typeFacts(st, valC, x.AssertedType))), nil
	}
	f.safetyObl("assert", exprText(f, x.X), cur, okT, x.Pos())
	cur = and(cur, okT)
	f.def(x, valT)
	return and(cur, f.t.typeFacts(st, f.vals[x].term, x.AssertedType)), nil
}

func (f *frame) convert(x *ssa.Convert, st *State, cur string) (string, error) {
	B := f.t.B
	from, to := x.X.Type(), x.Type()
	fs, ts := B.sortOf(from), B.sortOf(to)
	v := f.termOf(x.X)
	switch {
	case fs == "Int" && ts == "Int":
		_, fromPtr := from.Underlying().(*types.Pointer)
		if fromPtr {
			f.vals[x] = &Val{term: v}
			return cur, nil
		}
		f.def(x, v)
		// lossless conversion obligation (otherwise wraps)
		if lo, hi, ok := intRange(to); ok {
			flo, fhi, fok := intRange(from)
			if !(fok && rangeWithin(flo, fhi, lo, hi)) {
				goal := fmt.Sprintf("(and (<= %s %s) (<= %s %s))", lo, v, v, hi)
				f.safetyObl("conv", types.TypeString(from, nil)+"->"+types.TypeString(to, nil), cur, goal, x.Pos())
				// model wrap-around faithfully when not proven: result unconstrained inside target range
				w := B.declConst(f.vname(x)+".wrapped", "Int")
				f.vals[x] = &Val{term: B.define(f.vname(x)+".c", "Int", ite(goal, v, w))}
				cur = and(cur, fmt.Sprintf("(and (<= %s %s) (<= %s %s))", lo, w, w, hi))
			}
		}
		return cur, nil
	case fs == "Str" && ts == "Str":
		f.vals[x] = &Val{term: v}
		return cur, nil
	case fs == ts && fs != "Slice":
		f.vals[x] = &Val{term: v}
		return cur, nil
	}
	fn := B.declFun("conv:"+mangleType(from)+"->"+mangleType(to), []string{fs}, ts)
	f.def(x, fmt.Sprintf("(%s %s)", fn, v))
	cur = and(cur, f.t.typeFacts(st, f.vals[x].term, to))
	if ts == "Slice" {
		// string -> []byte: fresh slice, length equals strlen for byte slices
		r := f.allocRef(st, f.vname(x)+".base")
		c := f.vals[x].term
		cur = and(cur, fmt.Sprintf("(and (= (s_base %s) %s) (= (s_off %s) 0) (>= (s_len %s) 0) (= (s_cap %s) (s_len %s)))", c, r, c, c, c, c))
		if el, ok := to.Underlying().(*types.Slice).Elem().Underlying().(*types.Basic); ok && el.Kind() == types.Uint8 && fs == "Str" {
			cur = and(cur, fmt.Sprintf("(= (s_len %s) (strlen %s))", c, v))
		}
	}
	return cur, nil
}

func rangeWithin(flo, fhi, lo, hi string) bool {
	p := func(s string) (neg bool, digits string) {
		s = strings.TrimSpace(s)
		if strings.HasPrefix(s, "(- ") {
			return true, strings.TrimSuffix(s[3:], ")")
		}
		return false, s
	}
	cmp := func(a, b string) int { // a<=>b as integers
		an, ad := p(a)
		bn, bd := p(b)
		if an != bn {
			if an {
				return -1
			}
			return 1
		}
		c := 0
		if len(ad) != len(bd) {
			if len(ad) < len(bd) {
				c = -1
			} else {
				c = 1
			}
		} else {
			c = strings.Compare(ad, bd)
		}
		if an {
			return -c
		}
		return c
	}
	return cmp(flo, lo) >= 0 && cmp(fhi, hi) <= 0
}

func (f *frame) sliceOp(x *ssa.Slice, st *State, cur string) (string, error) {
	B := f.t.B
	var lo, hi, mx string
	if x.Low != nil {
		lo = f.termOf(x.Low)
	} else {
		lo = "0"
	}
	switch u := x.X.Type().Underlying().(type) {
	case *types.Slice:
		s := f.termOf(x.X)
		if x.High != nil {
			hi = f.termOf(x.High)
		} else {
			hi = fmt.Sprintf("(s_len %s)", s)
		}
		if x.Max != nil {
			mx = f.termOf(x.Max)
		} else {
			mx = fmt.Sprintf("(s_cap %s)", s)
		}
		goal := fmt.Sprintf("(and (<= 0 %s) (<= %s %s) (<= %s %s) (<= %s (s_cap %s)))", lo, lo, hi, hi, mx, mx, s)
		f.safetyObl("bounds", exprText(f, x.X)+"[:]", cur, goal, x.Pos())
		cur = and(cur, goal)
		f.def(x, fmt.Sprintf("(mk_slice (s_base %s) (+ (s_off %s) %s) (- %s %s) (- %s %s))", s, s, lo, hi, lo, mx, lo))
		return cur, nil
	case *types.Pointer: // *[N]T
		arr := u.Elem().Underlying().(*types.Array)
		base := f.termOf(x.X)
		if x.High != nil {
			hi = f.termOf(x.High)
		} else {
			hi = fmt.Sprint(arr.Len())
		}
		goal := fmt.Sprintf("(and (<= 0 %s) (<= %s %s) (<= %s %d))", lo, lo, hi, hi, arr.Len())
		if x.Low != nil || x.High != nil {
			f.safetyObl("bounds", exprText(f, x.X)+"[:]", cur, goal, x.Pos())
		}
		cur = and(cur, goal)
		f.def(x, fmt.Sprintf("(mk_slice %s %s (- %s %s) (- %d %s))", base, lo, hi, lo, arr.Len(), lo))
		return cur, nil
	case *types.Basic: // string
		s := f.termOf(x.X)
		if x.High != nil {
			hi = f.termOf(x.High)
		} else {
			hi = fmt.Sprintf("(strlen %s)", s)
		}
		goal := fmt.Sprintf("(and (<= 0 %s) (<= %s %s) (<= %s (strlen %s)))", lo, lo, hi, hi, s)
		f.safetyObl("bounds", exprText(f, x.X)+"[:]", cur, goal, x.Pos())
		cur = and(cur, goal)
		fn := B.declFun("substr", []string{"Str", "Int", "Int"}, "Str")
		f.def(x, fmt.Sprintf("(%s %s %s %s)", fn, s, lo, hi))
		cur = and(cur, fmt.Sprintf("(= (strlen %s) (- %s %s))", f.vals[x].term, hi, lo))
		return cur, nil
	}
	return f.havocVal(x, st, cur), nil
}

func (f *frame) lookup(x *ssa.Lookup, st *State, cur string) (string, error) {
	t := f.t
	B := t.B
	mt, ok := x.X.Type().Underlying().(*types.Map)
	if !ok {
		// string index
		s, idx := f.termOf(x.X), f.termOf(x.Index)
		goal := fmt.Sprintf("(and (<= 0 %s) (< %s (strlen %s)))", idx, idx, s)
		f.safetyObl("bounds", exprText(f, x.X), cur, goal, x.Pos())
		cur = and(cur, goal)
		f.def(x, fmt.Sprintf("(str_at %s %s)", s, idx))
		return and(cur, fmt.Sprintf("(and (<= 0 %s) (<= %s 255))", f.vals[x].term, f.vals[x].term)), nil
	}
	m, k := f.termOf(x.X), f.termOf(x.Index)
	if _, isI := mt.Key().Underlying().(*types.Interface); isI {
		k = f.makeIface(x.Index.Type(), k)
	}
	ks, vs := B.sortOf(mt.Key()), B.sortOf(mt.Elem())
	ps, vsA := arrOf("(Array "+ks+" Bool)"), arrOf("(Array "+ks+" "+vs+")")
	present := fmt.Sprintf("(and (not (= %s 0)) (select (select %s %s) %s))", m, t.get(st, mapPArr(mt), ps), m, k)
	val := fmt.Sprintf("(select (select %s %s) %s)", t.get(st, mapVArr(mt), vsA), m, k)
	if x.CommaOk {
		okC := B.define(f.vname(x)+".ok", "Bool", present)
		valC := B.define(f.vname(x)+".v", vs, ite(okC, val, B.zero(mt.Elem())))
		f.vals[x] = &Val{tuple: []*Val{{term: valC}, {term: okC}}}
		return and(cur, t.typeFacts(st, valC, mt.Elem())), nil
	}
	f.def(x, ite(present, val, B.zero(mt.Elem())))
	return and(cur, t.typeFacts(st, f.vals[x].term, mt.Elem())), nil
}

func (f *frame) next(x *ssa.Next, st *State, cur string) (string, error) {
	t := f.t
	B := t.B
	r, ok := x.Iter.(*ssa.Range)
	if !ok {
		return f.havocVal(x, st, cur), nil
	}
	tup := x.Type().(*types.Tuple)
	if x.IsString {
		okC := B.declConst(f.vname(x)+".ok", "Bool")
		k := B.declConst(f.vname(x)+".k", "Int")
		v := B.declConst(f.vname(x)+".v", "Int")
		f.vals[x] = &Val{tuple: []*Val{{term: okC}, {term: k}, {term: v}}}
		return and(cur, fmt.Sprintf("(=> %s (and (<= 0 %s) (< %s (strlen %s)) (<= 0 %s) (<= %s 1114111)))", okC, k, k, f.termOf(r.X), v, v)), nil
	}
	mt := r.X.Type().Underlying().(*types.Map)
	m := f.termOf(r.X)
	ks, vs := B.sortOf(mt.Key()), B.sortOf(mt.Elem())
	ps, vsA := arrOf("(Array "+ks+" Bool)"), arrOf("(Array "+ks+" "+vs+")")
	vis, has := st.visited[r]
	if !has {
		vis = B.declConst(B.fresh("visited?"), "(Array "+ks+" Bool)")
	}
	pres := fmt.Sprintf("(select %s %s)", t.get(st, mapPArr(mt), ps), m)
	okC := B.declConst(f.vname(x)+".ok", "Bool")
	k := B.declConst(f.vname(x)+".k", ks)
	_ = tup
	v := B.define(f.vname(x)+".v", vs, fmt.Sprintf("(select (select %s %s) %s)", t.get(st, mapVArr(mt), vsA), m, k))
	fact := fmt.Sprintf("(and (=> %s (and (not (= %s 0)) (select %s %s) (not (select %s %s)))) (=> (not %s) (or (= %s 0) (forall ((?kk %s)) (! (=> (select %s ?kk) (select %s ?kk)) :pattern ((select %s ?kk)) :qid e3_instr_876)))))",
		okC, m, pres, k, vis, k, okC, m, ks, pres, vis, pres)
	// extensionality at exhaustion: if only present keys were visited, the visited set is the key set
	presSet := fmt.Sprintf("(select %s %s)", t.get(st, mapPArr(mt), ps), m)
	fact = and(fact, fmt.Sprintf("(=> (and (not %s) (not (= %s 0)) (forall ((?kk %s)) (! (=> (select %s ?kk) (select %s ?kk)) :pattern ((select %s ?kk)) :qid e4_instr_880))) (= %s %s))", okC, m, ks, vis, presSet, vis, vis, presSet))
	// a map with exactly one key: the key delivered is the only one (only where the function counts this kind of map:
	// the cardinality axioms interact badly with array extensionality in proofs that do not need them)
	if B.declared["cardax:"+ks] {
		fact = and(fact, fmt.Sprintf("(=> (and %s (= (%s %s) 1)) (forall ((?kk %s)) (! (=> (select %s ?kk) (= ?kk %s)) :pattern ((select %s ?kk)) :qid e5_instr_882)))", okC, B.cardFn(ks), presSet, ks, presSet, k, presSet))
	}
	cur = and(cur, fact, implies(okC, t.typeFacts(st, v, mt.Elem())))
	st.visited[r] = B.define("visited", "(Array "+ks+" Bool)", ite(okC, fmt.Sprintf("(store %s %s true)", vis, k), vis))
	f.vals[x] = &Val{tuple: []*Val{{term: okC}, {term: k}, {term: v}}}
	return cur, nil
}

func (f *frame) runDefers(st *State, cur string) (string, error) {
	// execute pushed defers in reverse block/instruction order
	var ds []*ssa.Defer
	for _, b := range f.fn.Blocks {
		for _, in := range b.Instrs {
			if d, ok := in.(*ssa.Defer); ok {
				if _, pushed := st.defers[d]; pushed {
					ds = append(ds, d)
				}
			}
		}
	}
	for i := len(ds) - 1; i >= 0; i-- {
		d := ds[i]
		flag := st.defers[d]
		if flag == "false" {
			continue
		}
		// conditional execution: run on a clone, then merge
		stRun := st.clone()
		curRun := and(cur, flag)
		f.site = d
		curAfter, err := f.call(nil, &d.Call, stRun, curRun)
		f.site = nil
		if err != nil {
			return cur, err
		}
		if flag == "true" {
			*st = *stRun
			cur = curAfter
			continue
		}
		skip := f.t.B.define("deferskip", "Bool", and(cur, not(flag)))
		ran := f.t.B.define("deferran", "Bool", curAfter)
		c2, merged := f.mergeEdges([]edge{{cond: ran, st: stRun}, {cond: skip, st: st.clone()}})
		*st = *merged
		cur = c2
	}
	return cur, nil
}
