package main

// Discharging obligations: z3 4.8.12, z3 5.1.0 (z3-new), cvc5 1.0.3.

import (
	"bytes"
	"context"
	"fmt"
	"os"
	"os/exec"
	"path/filepath"
	"strings"
	"sync"
	"time"
)

type SolveResult struct {
	Status   string // unsat | sat | unknown | timeout | error
	Backend  string
	Seconds  float64
	Detail   string
	Model    string
	Disagree bool
	Answers  map[string]string
}

type solverSpec struct {
	name string
	args func(file string, timeoutS int, seed int) []string
}

var solvers = []solverSpec{
	{"z3-5.1.0", func(file string, t int, seed int) []string {
		return []string{"z3-new", fmt.Sprintf("-T:%d", t), fmt.Sprintf("smt.random_seed=%d", seed), fmt.Sprintf("sat.random_seed=%d", seed), file}
	}},
	{"z3-4.8.12", func(file string, t int, seed int) []string {
		return []string{"/usr/bin/z3", fmt.Sprintf("-T:%d", t), fmt.Sprintf("smt.random_seed=%d", seed), file}
	}},
	{"cvc5-1.0.3", func(file string, t int, seed int) []string {
		return []string{"cvc5", "--lang", "smt2", fmt.Sprintf("--tlimit=%d", t*1000), fmt.Sprintf("--seed=%d", seed), file}
	}},
}

func runSolver(ctx context.Context, sp solverSpec, file string, timeoutS, seed int) (string, string, float64) {
	if strings.HasPrefix(sp.name, "cvc5") {
		if data, err := os.ReadFile(file); err == nil {
			v := cvc5Variant(string(data))
			file = strings.TrimSuffix(file, ".smt2") + ".cvc5.smt2"
			os.WriteFile(file, []byte(v), 0o644)
		}
	}
	args := sp.args(file, timeoutS, seed)
	start := time.Now()
	cctx, cancel := context.WithTimeout(ctx, time.Duration(timeoutS+2)*time.Second)
	defer cancel()
	cmd := exec.CommandContext(cctx, args[0], args[1:]...)
	var out bytes.Buffer
	cmd.Stdout = &out
	cmd.Stderr = &out
	cmd.Run()
	el := time.Since(start).Seconds()
	s := out.String()
	first := ""
	for _, l := range strings.Split(s, "\n") {
		l = strings.TrimSpace(l)
		if l == "" || strings.HasPrefix(l, "WARNING") || strings.HasPrefix(l, "(warning") {
			continue
		}
		first = l
		break
	}
	switch first {
	case "sat", "unsat", "unknown":
		return first, s, el
	}
	if strings.Contains(s, "timeout") || cctx.Err() != nil {
		return "timeout", s, el
	}
	return "error", s, el
}

// Solve decides one script. allSolvers: require agreement of every solver that answers.
func Solve(workDir, name, script string, timeoutS int, seed int, allSolvers bool) SolveResult {
	file := filepath.Join(workDir, sanitizeFile(name)+".smt2")
	os.WriteFile(file, []byte(script), 0o644)
	res := SolveResult{Answers: map[string]string{}}
	start := time.Now()
	if !allSolvers {
		// stage 1: the usually fastest solver alone, briefly
		st1 := 3
		if timeoutS < st1 {
			st1 = timeoutS
		}
		a, out, _ := runSolver(context.Background(), solvers[0], file, st1, seed)
		res.Answers[solvers[0].name] = a
		if a == "sat" || a == "unsat" {
			res.Status, res.Backend, res.Detail = a, solvers[0].name, out
			res.Seconds = time.Since(start).Seconds()
			return res
		}
	}
	// race / all
	ctx, cancel := context.WithCancel(context.Background())
	defer cancel()
	type ans struct {
		name, a, out string
	}
	// the race: every solver with the given seed, and the usually fastest one with four further seeds (queries that take
	// seconds are the ones whose time depends on the seed; a different seed often decides them at once)
	type racer struct {
		sp   solverSpec
		seed int
		name string
	}
	var racers []racer
	for _, sp := range solvers {
		racers = append(racers, racer{sp, seed, sp.name})
	}
	if !allSolvers {
		// (four further seeds: measured on the request plumbing of GetData, about one seed in twelve runs into the
		// timeout on a query the others decide in half a second; consecutive seeds fail together more often than not)
		for _, k := range []int{1, 2, 5, 11} {
			racers = append(racers, racer{solvers[0], seed + k, solvers[0].name})
		}
	}
	ch := make(chan ans, len(racers))
	for ri, r := range racers {
		r := r
		rfile := file
		if ri >= len(solvers) {
			// own copy: the solvers are cancelled independently
			rfile = strings.TrimSuffix(file, ".smt2") + fmt.Sprintf(".s%d.smt2", r.seed)
			os.WriteFile(rfile, []byte(script), 0o644)
		}
		go func() {
			a, out, _ := runSolver(ctx, r.sp, rfile, timeoutS, r.seed)
			ch <- ans{r.name, a, out}
		}()
	}
	var definitive []ans
	for i := 0; i < len(racers); i++ {
		x := <-ch
		res.Answers[x.name] = x.a
		if x.a == "sat" || x.a == "unsat" {
			definitive = append(definitive, x)
			if !allSolvers {
				cancel()
				break
			}
		} else if res.Detail == "" {
			res.Detail = x.out
		}
	}
	res.Seconds = time.Since(start).Seconds()
	if len(definitive) == 0 && allSolvers {
		// no solver decided it with the given seed: the query is one of the seed-sensitive ones. What counts is whether
		// it can be decided at all, so the race of the quick tier (further seeds) gets a turn before the verdict "undecided"
		r2 := Solve(workDir, name+".reseed", script, timeoutS, seed+1, false)
		r2.Seconds += res.Seconds
		for k, v := range res.Answers {
			if _, have := r2.Answers[k]; !have {
				r2.Answers[k] = v
			}
		}
		return r2
	}
	if len(definitive) == 0 {
		res.Status = "unknown"
		allErr := len(res.Answers) > 0
		for _, a := range res.Answers {
			if a == "timeout" {
				res.Status = "timeout"
			}
			if a != "error" {
				allErr = false
			}
		}
		if allErr {
			// every solver rejected the script: a defect of the generator, not a verdict
			res.Status = "error"
		}
		return res
	}
	res.Status, res.Backend, res.Detail = definitive[0].a, definitive[0].name, definitive[0].out
	for _, d := range definitive[1:] {
		if d.a != res.Status {
			res.Disagree = true
		}
		res.Backend += "+" + d.name
	}
	return res
}

// GetModel reruns z3-new with model production.
func GetModel(workDir, name, script string, timeoutS int) string {
	file := filepath.Join(workDir, sanitizeFile(name)+".model.smt2")
	os.WriteFile(file, []byte("(set-option :produce-models true)\n"+script+"(get-model)\n"), 0o644)
	ctx, cancel := context.WithTimeout(context.Background(), time.Duration(timeoutS+2)*time.Second)
	defer cancel()
	out, _ := exec.CommandContext(ctx, "z3-new", fmt.Sprintf("-T:%d", timeoutS), file).CombinedOutput()
	return string(out)
}

// cvc5Variant rewrites constant arrays whose element is not a value literal (cvc5 rejects them)
// into declared arrays with a quantified definition.
func cvc5Variant(script string) string {
	var decls []string
	n := 0
	for {
		i := strings.LastIndex(script, "((as const ")
		found := false
		for i >= 0 {
			// parse sort
			start := i + len("((as const ")
			args, end, ok := parseArgs(script, start, 1)
			if !ok {
				i = strings.LastIndex(script[:i], "((as const ")
				continue
			}
			sortS := args[0]
			targs, end2, ok2 := parseArgs(script, end+1, 1)
			if !ok2 {
				i = strings.LastIndex(script[:i], "((as const ")
				continue
			}
			term := targs[0]
			if !(strings.Contains(term, "str_empty") || strings.Contains(term, "flt") || strings.Contains(term, "nil_") || strings.Contains(term, "carr!")) {
				i = strings.LastIndex(script[:i], "((as const ")
				continue
			}
			idx, _, ok3 := parseArgs(sortS, len("(Array "), 1)
			if !ok3 && strings.HasPrefix(sortS, "(Array ") {
				// parseArgs wants the closing paren right after `arity` args; take the first token instead
				rest := sortS[len("(Array "):]
				if rest[0] == '(' {
					d := 0
					for k := 0; k < len(rest); k++ {
						if rest[k] == '(' {
							d++
						} else if rest[k] == ')' {
							d--
							if d == 0 {
								idx = []string{rest[:k+1]}
								break
							}
						}
					}
				} else {
					idx = []string{strings.Fields(rest)[0]}
				}
			}
			if len(idx) == 0 {
				i = strings.LastIndex(script[:i], "((as const ")
				continue
			}
			n++
			name := fmt.Sprintf("|carr!%d|", n)
			decls = append(decls, fmt.Sprintf("(declare-const %s %s)\n(assert (forall ((?ci %s)) (= (select %s ?ci) %s)))", name, sortS, idx[0], name, term))
			script = script[:i] + name + script[end2+1:]
			found = true
			break
		}
		if !found {
			break
		}
	}
	if len(decls) == 0 {
		return script
	}
	return strings.Replace(script, "; --asserts--\n", strings.Join(decls, "\n")+"\n", 1)
}

func sanitizeFile(s string) string {
	var sb strings.Builder
	for _, r := range s {
		if r >= 'a' && r <= 'z' || r >= 'A' && r <= 'Z' || r >= '0' && r <= '9' || r == '.' || r == '-' || r == '_' || r == '#' || r == '@' {
			sb.WriteRune(r)
		} else {
			sb.WriteRune('_')
		}
	}
	out := sb.String()
	if len(out) > 180 {
		out = out[:180]
	}
	return out
}

type OblOutcome struct {
	O   *Obligation
	Res SolveResult
	OK  bool // matches expectation
}

// SolveAll discharges obligations in parallel.
func SolveAll(obls []*Obligation, workDir string, timeoutS, seed, workers int, allSolvers bool) []OblOutcome {
	out := make([]OblOutcome, len(obls))
	var wg sync.WaitGroup
	sem := make(chan struct{}, workers)
	// a function whose body no longer fits its contract (a loop added, a call moved) fails many obligations, most of them by
	// timeout; after a few undecided ones the rest of that function gets a short timeout: the verdict is already "broken"
	var mu sync.Mutex
	undecided := map[string]int{}
	for i, o := range obls {
		i, o := i, o
		wg.Add(1)
		sem <- struct{}{}
		go func() {
			defer wg.Done()
			defer func() { <-sem }()
			timeoutS := timeoutS
			mu.Lock()
			if undecided[o.Fn] >= 4 && timeoutS > 4 {
				timeoutS = 4
			}
			mu.Unlock()
			defer func() {
				if !out[i].OK && out[i].Res.Status != "sat" && out[i].Res.Status != "unsat" {
					mu.Lock()
					undecided[o.Fn]++
					mu.Unlock()
				}
			}()
			extra := []string{o.Reach, not(o.Goal)}
			script := o.B.Script(extra, false)
			if o.Expect == "sat" {
				// vacuity guards and canaries: the query must NOT be refutable. With quantified contracts the
				// solvers often cannot produce a model, so anything but `unsat` within a short time is accepted.
				to := 2
				if o.Kind == "canary" {
					to = timeoutS
				}
				var r SolveResult
				if o.Kind == "canary" {
					r = Solve(workDir, o.Name(), script, to, seed, false)
				} else {
					// one solver, briefly: only a refutation matters
					file := filepath.Join(workDir, sanitizeFile(o.Name())+".smt2")
					os.WriteFile(file, []byte(script), 0o644)
					a, out, secs := runSolver(context.Background(), solvers[0], file, to, seed)
					r = SolveResult{Status: a, Backend: solvers[0].name, Detail: out, Seconds: secs, Answers: map[string]string{solvers[0].name: a}}
				}
				ok := r.Status != "unsat" && r.Status != "error"
				if o.Kind == "canary" {
					ok = r.Status == "sat"
				}
				out[i] = OblOutcome{O: o, Res: r, OK: ok}
				return
			}
			r := Solve(workDir, o.Name(), script, timeoutS, seed, allSolvers)
			out[i] = OblOutcome{O: o, Res: r, OK: r.Status == o.Expect && !r.Disagree}
		}()
	}
	wg.Wait()
	// A timeout is "undecided", and on a loaded machine (other checks, other processes on the same cores) an obligation
	// that takes half a second alone can run into it. A few timeouts are therefore tried once more, one after the other
	// with four times the time, before they are reported; many timeouts are the signature of a function that no longer
	// fits its contract and are reported as they are.
	var retry []int
	for i := range out {
		if out[i].O != nil && !out[i].OK && out[i].O.Expect != "sat" && out[i].Res.Status == "timeout" {
			retry = append(retry, i)
		}
	}
	if len(retry) > 0 && len(retry) <= 6 {
		for _, i := range retry {
			o := out[i].O
			script := o.B.Script([]string{o.Reach, not(o.Goal)}, false)
			r := Solve(workDir, o.Name()+".retry", script, 4*timeoutS, seed+3, false) // other seeds than the first attempt
			if r.Status == o.Expect && !r.Disagree {
				r.Detail = "decided at the second attempt (the first one timed out)\n" + r.Detail
				out[i] = OblOutcome{O: o, Res: r, OK: true}
			}
		}
	}
	return out
}
