package main

import (
	"flag"
	"fmt"
	"os"
	"path/filepath"
	"sort"
	"strings"
	"time"
)

const verifDir = "/verif"

func repoDir() string {
	if d := os.Getenv("VERIF_REPO"); d != "" {
		return d
	}
	return "/repo"
}

func main() {
	if len(os.Args) < 2 {
		fmt.Fprintln(os.Stderr, "usage: gvc <vc|check|list|lock|selftest|replay> ...")
		os.Exit(2)
	}
	switch os.Args[1] {
	case "vc":
		cmdVC(os.Args[2:])
	case "list":
		cmdList(os.Args[2:])
	case "effects":
		cmdEffects(os.Args[2:])
	case "check":
		os.Exit(cmdCheck(os.Args[2:]))
	case "lock":
		os.Exit(cmdLock(os.Args[2:]))
	case "selftest":
		os.Exit(cmdSelftest(os.Args[2:]))
	case "replay":
		os.Exit(cmdReplay(os.Args[2:]))
	case "triage":
		os.Exit(cmdTriage(os.Args[2:]))
	default:
		fmt.Fprintln(os.Stderr, "unknown command", os.Args[1])
		os.Exit(2)
	}
}

func loadAll(overlay map[string][]byte) (*Program, *ContractDB, error) {
	P, err := LoadProgram(repoDir(), overlay)
	if err != nil {
		return nil, nil, err
	}
	DB, err := LoadContracts(filepath.Join(repoDir(), "pkg"), P.DirToPkg)
	if err != nil {
		return nil, nil, err
	}
	return P, DB, nil
}

func workDir() string {
	d := filepath.Join(verifDir, ".work", fmt.Sprintf("run-%d-%d", os.Getpid(), time.Now().UnixNano()))
	os.MkdirAll(d, 0o755)
	return d
}

// cmdVC: debug a single function: gvc vc -f '<key substring>' [-keep] [-t 10] [-o name]
func cmdVC(args []string) {
	fs := flag.NewFlagSet("vc", flag.ExitOnError)
	fn := fs.String("f", "", "function key (substring)")
	keep := fs.Bool("keep", false, "keep SMT files")
	timeout := fs.Int("t", 10, "timeout seconds")
	only := fs.String("o", "", "only obligations containing this text")
	safety := fs.Bool("safety", true, "safety obligations")
	all := fs.Bool("all", false, "all solvers must agree")
	model := fs.Bool("model", false, "print models of failed obligations")
	fs.Parse(args)
	t0 := time.Now()
	P, DB, err := loadAll(nil)
	if err != nil {
		fmt.Println("load error:", err)
		os.Exit(2)
	}
	fmt.Printf("loaded in %.1fs, %d functions, %d contracts\n", time.Since(t0).Seconds(), len(P.Funcs), len(DB.Funcs))
	var keys []string
	for k, fc := range DB.Funcs {
		if fc.Kind == "func" && fc.Trusted == "" && strings.Contains(k, *fn) {
			keys = append(keys, k)
		}
	}
	sort.Strings(keys)
	wd := workDir()
	if !*keep {
		defer os.RemoveAll(wd)
	} else {
		fmt.Println("work dir:", wd)
	}
	for _, k := range keys {
		fr := VerifyFunc(P, DB, DB.Funcs[k], *safety)
		fmt.Printf("== %s\n", k)
		if fr.Err != nil {
			fmt.Println("  ERROR:", fr.Err)
			continue
		}
		for _, n := range fr.Notes {
			fmt.Println("  note:", n)
		}
		var obls []*Obligation
		for _, o := range fr.Obls {
			if *only == "" || strings.Contains(o.Name(), *only) {
				obls = append(obls, o)
			}
		}
		outs := SolveAll(obls, wd, *timeout, 0, 10, *all)
		for _, oc := range outs {
			mark := "ok  "
			if !oc.OK {
				mark = "FAIL"
			}
			fmt.Printf("  %s %-70s %-8s %-22s %.2fs %s\n", mark, strings.TrimPrefix(oc.O.Name(), k), oc.Res.Status, oc.Res.Backend, oc.Res.Seconds, oc.O.Pos)
			if !oc.OK && *model && oc.Res.Status == "sat" {
				m := GetModel(wd, oc.O.Name(), oc.O.B.Script([]string{oc.O.Reach, not(oc.O.Goal)}, false), *timeout)
				fmt.Println(m)
			}
		}
		for _, tr := range fr.Trusted {
			fmt.Println("  trusted:", tr)
		}
	}
}

func cmdList(args []string) {
	P, DB, err := loadAll(nil)
	if err != nil {
		fmt.Println("load error:", err)
		os.Exit(2)
	}
	if len(args) > 0 {
		for _, k := range P.FuncKeysMatching(args[0]) {
			fmt.Println(k)
		}
		return
	}
	var keys []string
	for k := range DB.Funcs {
		keys = append(keys, k)
	}
	sort.Strings(keys)
	for _, k := range keys {
		fc := DB.Funcs[k]
		_, has := P.Funcs[k]
		fmt.Printf("%-8s %-80s props=%v body=%v\n", fc.Kind, k, fc.Props, has)
	}
}

// cmdEffects prints the inferred effect summary of functions (debugging aid).
func cmdEffects(args []string) {
	P, DB, err := loadAll(nil)
	if err != nil {
		fmt.Println("load error:", err)
		os.Exit(2)
	}
	S := P.summaries(DB)
	for _, k := range P.FuncKeysMatching(args[0]) {
		e := S.fn[P.Funcs[k]]
		if e == nil {
			continue
		}
		fmt.Printf("%s: all=%v ext=%v trace=%v alloc=%v why=%s\n", k, e.all, e.ext, e.trace, e.alloc, e.why)
		if !e.all {
			for _, a := range sortedKeys(e.arrs) {
				fmt.Printf("    %s\n", a)
			}
		}
	}
}

// cmdTriage: gvc triage Cxx  -- runs every claimed obligation of the property and prints the ones that do not
// discharge (maintenance aid for unclaimed.json / known_findings.json; it decides nothing).
func cmdTriage(args []string) int {
	if len(args) < 1 {
		fmt.Println("usage: gvc triage Cxx [timeout]")
		return 2
	}
	P, DB, err := loadAll(nil)
	if err != nil {
		fmt.Println("load error:", err)
		return 2
	}
	wd := workDir()
	defer os.RemoveAll(wd)
	timeout := 8
	if len(args) > 1 {
		fmt.Sscanf(args[1], "%d", &timeout)
	}
	pr := runProperty(P, DB, args[0], timeout, 0, false, wd, loadKnownFindings(), loadUnclaimed())
	for k, e := range pr.FnErrors {
		fmt.Printf("ERROR %s: %s\n", k, e)
	}
	seen := map[string]bool{}
	for _, oc := range pr.Outcomes {
		if oc.OK || seen[oc.O.Base()] {
			continue
		}
		seen[oc.O.Base()] = true
		fmt.Printf("FAIL\t%s\t%s\t%s\t%s\n", oc.O.Base(), oc.O.Kind, oc.Res.Status, oc.O.Pos)
	}
	fmt.Printf("%d functions, %d claimed obligations, %d unclaimed\n", len(pr.Funcs), len(pr.Outcomes), len(pr.Unclaimed))
	return 0
}
