package main

// Contract expressions (Go syntax + a few built-ins) -> SMT terms.

import (
	"fmt"
	"go/ast"
	"go/constant"
	"go/parser"
	"go/token"
	"go/types"
	"os"
	"sort"
	"strconv"
	"strings"

	"golang.org/x/tools/go/ssa"
)

type cval struct {
	term  string
	typ   types.Type // nil for ghost sorts
	sort  string     // for ghost values
	isNil bool
}

type exprEnv struct {
	f      *frame
	st     *State
	old    *State
	vars   map[string]cval
	pkg    *types.Package
	loop   *loopInfo
	depth  int
	qfacts *[]string // well-formedness facts of loads under the innermost quantifier
}

func (f *frame) baseEnvNoParams(st *State) *exprEnv {
	env := &exprEnv{f: f, st: st, old: f.entry, vars: map[string]cval{}}
	if f.fn == nil {
		return env
	}
	if f.fn.Pkg != nil {
		env.pkg = f.fn.Pkg.Pkg
	} else if f.fn.Parent() != nil && f.fn.Parent().Pkg != nil {
		env.pkg = f.fn.Parent().Pkg.Pkg
	}
	return env
}

// baseEnv binds the parameters of the frame's function (entry values) and unambiguous locals.
func (f *frame) baseEnv(st *State) *exprEnv {
	env := f.baseEnvNoParams(st)
	for name, vs := range f.names {
		if len(vs) > 1 {
			// a debug reference to the zero constant at the declaration does not make the name ambiguous
			var nonConst []ssa.Value
			for _, x := range vs {
				if _, isC := x.(*ssa.Const); !isC {
					nonConst = append(nonConst, x)
				}
			}
			if len(nonConst) == 1 {
				vs = nonConst
			}
		}
		if len(vs) == 1 {
			if v, ok := f.vals[vs[0]]; ok && v.term != "" {
				env.vars[name] = cval{term: v.term, typ: vs[0].Type()}
			} else if c, isC := vs[0].(*ssa.Const); isC {
				env.vars[name] = cval{term: f.constTerm(c), typ: c.Type()}
			}
		} else if len(vs) > 1 {
			// a variable assigned on several paths: its final join (the phi in the latest block) stands for the name
			var best *ssa.Phi
			for _, x := range vs {
				if p, ok := x.(*ssa.Phi); ok {
					if v, has := f.vals[p]; has && v.term != "" && (best == nil || p.Block().Index > best.Block().Index) {
						best = p
					}
				}
			}
			if best != nil {
				env.vars[name] = cval{term: f.vals[best].term, typ: best.Type()}
			}
		}
	}
	for name, a := range f.allocs {
		if v, ok := f.vals[a]; ok && v.lv != nil && v.lv.kind == lvLocal {
			if cur, has := st.heap[v.lv.arr]; has {
				env.vars[name] = cval{term: cur, typ: v.lv.typ}
			}
		}
	}
	for _, p := range f.fn.Params {
		if v, ok := f.vals[p]; ok {
			term := v.term
			if term == "" && v.lv != nil && v.lv.kind == lvCell {
				term = v.lv.obj
			}
			env.vars[p.Name()] = cval{term: term, typ: p.Type()}
		}
	}
	for _, fv := range f.fn.FreeVars {
		if v, ok := f.vals[fv]; ok {
			if v.lv != nil {
				// captured variable: its current content
				env.vars[fv.Name()] = cval{term: f.t.load(st, v.lv), typ: v.lv.typ}
			} else {
				env.vars[fv.Name()] = cval{term: v.term, typ: fv.Type()}
			}
		}
	}
	return env
}

func (e *exprEnv) with(st *State) *exprEnv {
	n := *e
	n.st = st
	return &n
}

func (e *exprEnv) bind(name string, v cval) *exprEnv {
	n := *e
	n.vars = make(map[string]cval, len(e.vars)+1)
	for k, x := range e.vars {
		n.vars[k] = x
	}
	n.vars[name] = v
	return &n
}

func (e *exprEnv) compile(src string) (cval, error) {
	ex, err := parser.ParseExpr(src)
	if err != nil {
		return cval{}, fmt.Errorf("parse %q: %v", src, err)
	}
	return e.expr(ex)
}

func (e *exprEnv) compileBool(src string) (string, error) {
	v, err := e.compile(src)
	if err != nil {
		return "", err
	}
	if v.typ != nil && e.B().sortOf(v.typ) != "Bool" {
		return "", fmt.Errorf("%q is not boolean", src)
	}
	return v.term, nil
}

func (e *exprEnv) B() *Builder { return e.f.t.B }

// sideFact records the heap well-formedness fact of a value loaded in a contract expression
// (references stored in the heap are allocated; integers are within their type's range).
// Only ground terms are instantiated; facts are true in every execution, so they are asserted globally.
func (e *exprEnv) sideFact(v cval) {
	if v.typ == nil {
		return
	}
	if strings.Contains(v.term, "?") {
		// under a quantifier: the well-formedness of the whole heap array version is asserted once (versionAxiom)
		e.versionAxiom(v)
		return
	}
	f := e.f.t.typeFactsA(e.f.t.lastAlloc, v.term, v.typ)
	if f == "true" {
		return
	}
	key := "sidefact:" + f
	B := e.B()
	if !B.declared[key] {
		B.declared[key] = true
		B.assert(f)
	}
}

var boolT = types.Typ[types.Bool]
var intT = types.Typ[types.Int]

func (e *exprEnv) expr(x ast.Expr) (cval, error) {
	B := e.B()
	switch n := x.(type) {
	case *ast.ParenExpr:
		return e.expr(n.X)
	case *ast.BasicLit:
		switch n.Kind {
		case token.INT:
			return cval{term: n.Value, typ: types.Typ[types.UntypedInt]}, nil
		case token.STRING:
			s, err := strconv.Unquote(n.Value)
			if err != nil {
				return cval{}, err
			}
			return cval{term: B.strLit(s), typ: types.Typ[types.String]}, nil
		}
		return cval{}, fmt.Errorf("literal %s not supported", n.Value)
	case *ast.Ident:
		return e.ident(n.Name)
	case *ast.UnaryExpr:
		v, err := e.expr(n.X)
		if err != nil {
			return cval{}, err
		}
		switch n.Op {
		case token.NOT:
			return cval{term: not(v.term), typ: boolT}, nil
		case token.SUB:
			return cval{term: "(- " + v.term + ")", typ: v.typ}, nil
		}
		return cval{}, fmt.Errorf("unary %s not supported", n.Op)
	case *ast.StarExpr:
		v, err := e.expr(n.X)
		if err != nil {
			return cval{}, err
		}
		p, ok := v.typ.Underlying().(*types.Pointer)
		if !ok {
			return cval{}, fmt.Errorf("deref of non pointer")
		}
		if _, isS := p.Elem().Underlying().(*types.Struct); isS {
			return cval{term: e.f.loadStruct(e.st, v.term, p.Elem()), typ: p.Elem()}, nil
		}
		return cval{term: e.f.t.load(e.st, &LVal{kind: lvCell, arr: cellArr(p.Elem()), obj: v.term, typ: p.Elem()}), typ: p.Elem()}, nil
	case *ast.BinaryExpr:
		return e.binary(n)
	case *ast.SelectorExpr:
		return e.selector(n)
	case *ast.IndexExpr:
		return e.index(n)
	case *ast.CallExpr:
		return e.call(n)
	}
	return cval{}, fmt.Errorf("expression %T not supported", x)
}

func (e *exprEnv) ident(name string) (cval, error) {
	B := e.B()
	if v, ok := e.vars[name]; ok {
		return v, nil
	}
	switch name {
	case "true":
		return cval{term: "true", typ: boolT}, nil
	case "false":
		return cval{term: "false", typ: boolT}, nil
	case "nil":
		return cval{term: "0", typ: types.Typ[types.UntypedNil], isNil: true}, nil
	}
	// zero-arg event
	if B.events != nil {
		if args, ok := B.events.args[name]; ok && len(args) == 0 {
			return cval{term: "ev_" + name, sort: "Event"}, nil
		}
	}
	if sf, ok := e.f.t.DB.Specs[name]; ok && len(sf.Args) == 0 {
		return cval{term: B.declConst("spec:"+name, sf.Res), sort: sf.Res, typ: sortType(sf.Res)}, nil
	}
	if e.pkg != nil {
		if obj := e.pkg.Scope().Lookup(name); obj != nil {
			return e.object(obj)
		}
	}
	return cval{}, fmt.Errorf("unknown identifier %q", strings.ReplaceAll(name, "ζ", "$"))
}

func sortType(s string) types.Type {
	switch s {
	case "Int":
		return intT
	case "Bool":
		return boolT
	case "Str":
		return types.Typ[types.String]
	}
	return nil
}

func (e *exprEnv) object(obj types.Object) (cval, error) {
	B := e.B()
	switch o := obj.(type) {
	case *types.Const:
		switch o.Val().Kind() {
		case constant.String:
			return cval{term: B.strLit(constant.StringVal(o.Val())), typ: o.Type()}, nil
		case constant.Int:
			s := o.Val().ExactString()
			if strings.HasPrefix(s, "-") {
				s = "(- " + s[1:] + ")"
			}
			return cval{term: s, typ: o.Type()}, nil
		case constant.Bool:
			if constant.BoolVal(o.Val()) {
				return cval{term: "true", typ: boolT}, nil
			}
			return cval{term: "false", typ: boolT}, nil
		}
	case *types.Var:
		// package-level variable
		name := "G:" + pkgQualifier(o.Pkg().Path()) + "." + o.Name()
		ref := e.f.t.globalAddr(name)
		if _, isS := o.Type().Underlying().(*types.Struct); isS {
			return cval{term: ref, typ: types.NewPointer(o.Type())}, nil
		}
		return cval{term: e.f.t.load(e.st, &LVal{kind: lvCell, arr: cellArr(o.Type()), obj: ref, typ: o.Type()}), typ: o.Type()}, nil
	}
	return cval{}, fmt.Errorf("object %s not usable in a contract", obj.Name())
}

func isNumeric(v cval) bool {
	if v.typ == nil {
		return v.sort == "Int"
	}
	b, ok := v.typ.Underlying().(*types.Basic)
	return ok && b.Info()&types.IsInteger != 0
}

func (e *exprEnv) binary(n *ast.BinaryExpr) (cval, error) {
	a, err := e.expr(n.X)
	if err != nil {
		return cval{}, err
	}
	b, err := e.expr(n.Y)
	if err != nil {
		return cval{}, err
	}
	switch n.Op {
	case token.LAND:
		return cval{term: and(a.term, b.term), typ: boolT}, nil
	case token.LOR:
		return cval{term: or(a.term, b.term), typ: boolT}, nil
	case token.EQL, token.NEQ:
		t := e.equal(a, b)
		if n.Op == token.NEQ {
			t = not(t)
		}
		return cval{term: t, typ: boolT}, nil
	case token.LSS, token.LEQ, token.GTR, token.GEQ:
		op := map[token.Token]string{token.LSS: "<", token.LEQ: "<=", token.GTR: ">", token.GEQ: ">="}[n.Op]
		return cval{term: fmt.Sprintf("(%s %s %s)", op, a.term, b.term), typ: boolT}, nil
	case token.ADD, token.SUB, token.MUL:
		if a.typ != nil && e.B().sortOf(a.typ) == "Str" && n.Op == token.ADD {
			return cval{term: fmt.Sprintf("(str_concat %s %s)", a.term, b.term), typ: a.typ}, nil
		}
		op := map[token.Token]string{token.ADD: "+", token.SUB: "-", token.MUL: "*"}[n.Op]
		return cval{term: fmt.Sprintf("(%s %s %s)", op, a.term, b.term), typ: intT}, nil
	case token.QUO:
		return cval{term: fmt.Sprintf("(div %s %s)", a.term, b.term), typ: intT}, nil
	case token.REM:
		return cval{term: fmt.Sprintf("(mod %s %s)", a.term, b.term), typ: intT}, nil
	}
	return cval{}, fmt.Errorf("operator %s not supported", n.Op)
}

func (e *exprEnv) equal(a, b cval) string {
	if a.isNil && !b.isNil {
		a, b = b, a
	}
	if b.isNil {
		if a.typ != nil {
			switch a.typ.Underlying().(type) {
			case *types.Slice:
				return fmt.Sprintf("(= (s_base %s) 0)", a.term)
			case *types.Interface:
				return fmt.Sprintf("(= (i_tag %s) 0)", a.term)
			}
		}
		if a.sort == "Iface" {
			return fmt.Sprintf("(= (i_tag %s) 0)", a.term)
		}
		return fmt.Sprintf("(= %s 0)", a.term)
	}
	// interface vs concrete
	if a.typ != nil && b.typ != nil {
		_, ai := a.typ.Underlying().(*types.Interface)
		_, bi := b.typ.Underlying().(*types.Interface)
		if ai && !bi {
			return eq(a.term, e.f.makeIface(b.typ, b.term))
		}
		if bi && !ai {
			return eq(e.f.makeIface(a.typ, a.term), b.term)
		}
	}
	return eq(a.term, b.term)
}

// fieldPath finds a (possibly promoted) field.
func fieldPath(t types.Type, name string, pkg *types.Package) ([]int, *types.Var) {
	obj, idx, _ := types.LookupFieldOrMethod(t, true, pkg, name)
	if v, ok := obj.(*types.Var); ok && v.IsField() {
		return idx, v
	}
	// try with the field's own package (unexported fields of other packages)
	var found []int
	var fv *types.Var
	var walk func(t types.Type, path []int, depth int) bool
	walk = func(t types.Type, path []int, depth int) bool {
		if depth > 4 {
			return false
		}
		if p, ok := t.Underlying().(*types.Pointer); ok {
			t = p.Elem()
		}
		s, ok := t.Underlying().(*types.Struct)
		if !ok {
			return false
		}
		for i := 0; i < s.NumFields(); i++ {
			if s.Field(i).Name() == name {
				found = append(append([]int{}, path...), i)
				fv = s.Field(i)
				return true
			}
		}
		for i := 0; i < s.NumFields(); i++ {
			if s.Field(i).Embedded() {
				if walk(s.Field(i).Type(), append(append([]int{}, path...), i), depth+1) {
					return true
				}
			}
		}
		return false
	}
	walk(t, nil, 0)
	return found, fv
}

// selectField applies a field selection path to a value.
func (e *exprEnv) selectField(v cval, path []int) (cval, error) {
	B := e.B()
	cur := v
	for _, i := range path {
		var T types.Type
		isPtr := false
		if p, ok := cur.typ.Underlying().(*types.Pointer); ok {
			T = p.Elem()
			isPtr = true
		} else {
			T = cur.typ
		}
		s, ok := T.Underlying().(*types.Struct)
		if !ok {
			return cval{}, fmt.Errorf("field selection on %s", cur.typ)
		}
		fld := s.Field(i)
		if isPtr {
			if _, isS := fld.Type().Underlying().(*types.Struct); isS {
				cur = cval{term: e.f.subObj(cur.term, T, fld.Name()), typ: types.NewPointer(fld.Type())}
				continue
			}
			cur = cval{term: e.f.t.load(e.st, &LVal{kind: lvField, arr: fieldArr(T, fld.Name()), obj: cur.term, typ: fld.Type()}), typ: fld.Type()}
			e.sideFact(cur)
			continue
		}
		B.sortOf(T)
		cur = cval{term: fmt.Sprintf("(%s %s)", B.structAcc(T, fld.Name()), cur.term), typ: fld.Type()}
	}
	return cur, nil
}

func (e *exprEnv) selector(n *ast.SelectorExpr) (cval, error) {
	// package-qualified object?
	if id, ok := n.X.(*ast.Ident); ok {
		if _, isVar := e.vars[id.Name]; !isVar && e.pkg != nil {
			if p := e.importedPkg(id.Name); p != nil {
				obj := p.Scope().Lookup(n.Sel.Name)
				if obj == nil {
					return cval{}, fmt.Errorf("%s.%s not found", id.Name, n.Sel.Name)
				}
				return e.object(obj)
			}
		}
	}
	v, err := e.expr(n.X)
	if err != nil {
		return cval{}, err
	}
	if v.typ == nil {
		return cval{}, fmt.Errorf("selector on ghost value")
	}
	path, fv := fieldPath(v.typ, n.Sel.Name, e.pkg)
	if fv == nil {
		return cval{}, fmt.Errorf("no field %s in %s", n.Sel.Name, v.typ)
	}
	return e.selectField(v, path)
}

func (e *exprEnv) importedPkg(name string) *types.Package {
	if e.pkg == nil {
		return nil
	}
	// import aliases of the package's files first
	if pk := e.f.t.P.ByPath[e.pkg.Path()]; pk != nil {
		for _, file := range pk.Syntax {
			for _, is := range file.Imports {
				path, err := strconv.Unquote(is.Path.Value)
				if err != nil {
					continue
				}
				alias := ""
				if is.Name != nil {
					alias = is.Name.Name
				}
				if alias == name {
					for _, imp := range e.pkg.Imports() {
						if imp.Path() == path {
							return imp
						}
					}
				}
			}
		}
	}
	for _, imp := range e.pkg.Imports() {
		if imp.Name() == name {
			return imp
		}
	}
	// also search all loaded packages by name (contract files may mention packages the code does not import)
	for _, pk := range e.f.t.P.Pkgs {
		if pk.Types != nil && pk.Types.Name() == name {
			return pk.Types
		}
		for _, imp := range pk.Types.Imports() {
			if imp.Name() == name {
				return imp
			}
		}
	}
	return nil
}

func (e *exprEnv) index(n *ast.IndexExpr) (cval, error) {
	B := e.B()
	v, err := e.expr(n.X)
	if err != nil {
		return cval{}, err
	}
	i, err := e.expr(n.Index)
	if err != nil {
		return cval{}, err
	}
	if v.typ == nil {
		// ghost array / set
		if strings.HasPrefix(v.sort, "(Array ") {
			if strings.HasSuffix(v.sort, " Int)") {
				return cval{term: fmt.Sprintf("(select %s %s)", v.term, i.term), typ: intT}, nil
			}
			return cval{term: fmt.Sprintf("(select %s %s)", v.term, i.term), typ: boolT}, nil
		}
		return cval{}, fmt.Errorf("index on ghost value")
	}
	switch u := v.typ.Underlying().(type) {
	case *types.Slice:
		el := u.Elem()
		if _, isS := el.Underlying().(*types.Struct); isS {
			fn := B.declFun("selem:"+mangleType(el), []string{"Int", "Int"}, "Int")
			return cval{term: fmt.Sprintf("(%s (s_base %s) (+ (s_off %s) %s))", fn, v.term, v.term, i.term), typ: types.NewPointer(el)}, nil
		}
		lv := &LVal{kind: lvElem, arr: elemArr(el), obj: fmt.Sprintf("(s_base %s)", v.term), idx: fmt.Sprintf("(+ (s_off %s) %s)", v.term, i.term), typ: el}
		out := cval{term: e.f.t.load(e.st, lv), typ: el}
		e.sideFact(out)
		return out, nil
	case *types.Map:
		ks, vs := B.sortOf(u.Key()), B.sortOf(u.Elem())
		ps, vsA := arrOf("(Array "+ks+" Bool)"), arrOf("(Array "+ks+" "+vs+")")
		k := i.term
		present := fmt.Sprintf("(and (not (= %s 0)) (select (select %s %s) %s))", v.term, e.f.t.get(e.st, mapPArr(u), ps), v.term, k)
		val := fmt.Sprintf("(select (select %s %s) %s)", e.f.t.get(e.st, mapVArr(u), vsA), v.term, k)
		out := cval{term: ite(present, val, B.zero(u.Elem())), typ: u.Elem()}
		e.f.t.lastAlloc = e.st.alloc
		e.f.t.lastVersion, e.f.t.lastDepth = "", 0
		e.sideFact(cval{term: val, typ: u.Elem()})
		return out, nil
	case *types.Basic:
		return cval{term: fmt.Sprintf("(str_at %s %s)", v.term, i.term), typ: intT}, nil
	}
	return cval{}, fmt.Errorf("index on %s", v.typ)
}

func (e *exprEnv) resolveType(x ast.Expr) (types.Type, error) {
	switch n := x.(type) {
	case *ast.StarExpr:
		t, err := e.resolveType(n.X)
		if err != nil {
			return nil, err
		}
		return types.NewPointer(t), nil
	case *ast.Ident:
		if e.pkg != nil {
			if obj := e.pkg.Scope().Lookup(n.Name); obj != nil {
				if tn, ok := obj.(*types.TypeName); ok {
					return tn.Type(), nil
				}
			}
		}
		if obj := types.Universe.Lookup(n.Name); obj != nil {
			if tn, ok := obj.(*types.TypeName); ok {
				return tn.Type(), nil
			}
		}
	case *ast.SelectorExpr:
		if id, ok := n.X.(*ast.Ident); ok {
			if p := e.importedPkg(id.Name); p != nil {
				if obj := p.Scope().Lookup(n.Sel.Name); obj != nil {
					if tn, ok := obj.(*types.TypeName); ok {
						return tn.Type(), nil
					}
				}
			}
		}
	case *ast.ParenExpr:
		return e.resolveType(n.X)
	case *ast.MapType:
		k, err := e.resolveType(n.Key)
		if err != nil {
			return nil, err
		}
		v, err := e.resolveType(n.Value)
		if err != nil {
			return nil, err
		}
		return types.NewMap(k, v), nil
	case *ast.ArrayType:
		if n.Len == nil {
			el, err := e.resolveType(n.Elt)
			if err != nil {
				return nil, err
			}
			return types.NewSlice(el), nil
		}
	}
	return nil, fmt.Errorf("cannot resolve type %s", types.ExprString(x))
}

func (e *exprEnv) call(n *ast.CallExpr) (cval, error) {
	B := e.B()
	t := e.f.t
	// conversion of a concrete value to an interface type: Entry(s)
	if len(n.Args) == 1 {
		if id, ok := n.Fun.(*ast.Ident); ok {
			if _, isVar := e.vars[id.Name]; !isVar {
				if T, err := e.resolveType(id); err == nil {
					if _, isI := T.Underlying().(*types.Interface); isI {
						v, err := e.expr(n.Args[0])
						if err != nil {
							return cval{}, err
						}
						if v.typ == nil {
							return cval{}, fmt.Errorf("conversion of an untyped term")
						}
						if _, already := v.typ.Underlying().(*types.Interface); already {
							return cval{term: v.term, typ: T}, nil
						}
						return cval{term: e.f.makeIface(v.typ, v.term), typ: T}, nil
					}
				}
			}
		}
	}
	if id, ok := n.Fun.(*ast.Ident); ok {
		name := id.Name
		switch name {
		case "implies__":
			a, err := e.expr(n.Args[0])
			if err != nil {
				return cval{}, err
			}
			b, err := e.expr(n.Args[1])
			if err != nil {
				return cval{}, err
			}
			return cval{term: implies(a.term, b.term), typ: boolT}, nil
		case "iff__":
			a, err := e.expr(n.Args[0])
			if err != nil {
				return cval{}, err
			}
			b, err := e.expr(n.Args[1])
			if err != nil {
				return cval{}, err
			}
			return cval{term: eq(a.term, b.term), typ: boolT}, nil
		case "ite":
			c, err := e.expr(n.Args[0])
			if err != nil {
				return cval{}, err
			}
			a, err := e.expr(n.Args[1])
			if err != nil {
				return cval{}, err
			}
			b, err := e.expr(n.Args[2])
			if err != nil {
				return cval{}, err
			}
			return cval{term: ite(c.term, a.term, b.term), typ: a.typ, sort: a.sort}, nil
		case "old":
			if e.old == nil {
				return cval{}, fmt.Errorf("old() not available here")
			}
			return e.with(e.old).expr(n.Args[0])
		case "baseof", "capof":
			// identity of the backing array of a slice (two slices with different bases share no element) / its capacity
			v, err := e.expr(n.Args[0])
			if err != nil {
				return cval{}, err
			}
			if _, ok := v.typ.Underlying().(*types.Slice); !ok {
				return cval{}, fmt.Errorf("%s of non-slice", name)
			}
			if name == "capof" {
				return cval{term: fmt.Sprintf("(s_cap %s)", v.term), typ: intT}, nil
			}
			return cval{term: fmt.Sprintf("(s_base %s)", v.term), typ: intT}, nil
		case "len":
			v, err := e.expr(n.Args[0])
			if err != nil {
				return cval{}, err
			}
			if v.typ == nil && strings.HasPrefix(v.sort, "(Array ") && strings.HasSuffix(v.sort, " Bool)") {
				// a key set ($visited): its cardinality
				ks := strings.TrimSuffix(strings.TrimPrefix(v.sort, "(Array "), " Bool)")
				return cval{term: fmt.Sprintf("(%s %s)", B.cardFn(ks), v.term), typ: intT}, nil
			}
			if v.typ == nil {
				return cval{}, fmt.Errorf("len of an untyped term")
			}
			switch u := v.typ.Underlying().(type) {
			case *types.Slice:
				return cval{term: fmt.Sprintf("(s_len %s)", v.term), typ: intT}, nil
			case *types.Basic:
				return cval{term: fmt.Sprintf("(strlen %s)", v.term), typ: intT}, nil
			case *types.Map:
				ks := B.sortOf(u.Key())
				ps := arrOf("(Array " + ks + " Bool)")
				fn := B.cardFn(ks)
				return cval{term: ite(fmt.Sprintf("(= %s 0)", v.term), "0", fmt.Sprintf("(%s (select %s %s))", fn, t.get(e.st, mapPArr(u), ps), v.term)), typ: intT}, nil
			}
			return cval{}, fmt.Errorf("len of %s", v.typ)
		case "forall", "exists":
			if len(n.Args) != 4 {
				return cval{}, fmt.Errorf("%s(i, lo, hi, P)", name)
			}
			bv, ok := n.Args[0].(*ast.Ident)
			if !ok {
				return cval{}, fmt.Errorf("%s: binder must be an identifier", name)
			}
			lo, err := e.expr(n.Args[1])
			if err != nil {
				return cval{}, err
			}
			hi, err := e.expr(n.Args[2])
			if err != nil {
				return cval{}, err
			}
			qv := B.fresh("?" + bv.Name)
			be := e.bind(bv.Name, cval{term: q(qv), typ: intT})
			var facts []string
			be.qfacts = &facts
			body, err := be.expr(n.Args[3])
			if err != nil {
				return cval{}, err
			}
			body.term = quantBody(facts, body.term, name == "exists")
			rng := fmt.Sprintf("(and (<= %s %s) (< %s %s))", lo.term, q(qv), q(qv), hi.term)
			pats := selectPatterns(body.term, q(qv))
			if name == "forall" {
				return cval{term: mkForall(q(qv), "Int", rng, body.term, pats), typ: boolT}, nil
			}
			return cval{term: e.exposeOuter(n.Args[3], bv.Name, fmt.Sprintf("(exists ((%s Int)) %s)", q(qv), withPatterns(fmt.Sprintf("(and %s %s)", rng, body.term), pats))), typ: boolT}, nil
		case "allref", "exref", "allint", "exint", "allstr", "exstr", "allof", "exof":
			bv, ok := n.Args[0].(*ast.Ident)
			if !ok {
				return cval{}, fmt.Errorf("%s: binder must be an identifier", name)
			}
			var tp types.Type
			var bodyX ast.Expr
			sortQ := "Int"
			switch name {
			case "allof", "exof":
				T, err := e.resolveType(n.Args[1])
				if err != nil {
					return cval{}, err
				}
				tp = T
				sortQ = B.sortOf(T)
				bodyX = n.Args[2]
			case "allref", "exref":
				T, err := e.resolveType(n.Args[1])
				if err != nil {
					return cval{}, err
				}
				tp = types.NewPointer(T)
				if _, isP := T.Underlying().(*types.Pointer); isP {
					tp = T
				}
				bodyX = n.Args[2]
			case "allint", "exint":
				tp = intT
				bodyX = n.Args[1]
			default:
				tp = types.Typ[types.String]
				sortQ = "Str"
				bodyX = n.Args[1]
			}
			qv := B.fresh("?" + bv.Name)
			be := e.bind(bv.Name, cval{term: q(qv), typ: tp})
			var facts []string
			be.qfacts = &facts
			body, err := be.expr(bodyX)
			if err != nil {
				return cval{}, err
			}
			body.term = quantBody(facts, body.term, strings.HasPrefix(name, "ex"))
			pats := selectPatterns(body.term, q(qv))
			if strings.HasPrefix(name, "all") {
				// directly nested universal quantifiers are merged into one binder list (patterns may then mention all variables)
				return cval{term: mkForall(q(qv), sortQ, "", body.term, pats), typ: boolT}, nil
			}
			return cval{term: e.exposeOuter(bodyX, bv.Name, fmt.Sprintf("(exists ((%s %s)) %s)", q(qv), sortQ, withPatterns(body.term, pats))), typ: boolT}, nil
		case "trigger":
			// trigger(t, P): P with the explicit E-matching pattern t (used in axioms)
			tv, err := e.expr(n.Args[0])
			if err != nil {
				return cval{}, err
			}
			pv, err := e.expr(n.Args[1])
			if err != nil {
				return cval{}, err
			}
			return cval{term: fmt.Sprintf("(! %s :pattern (%s) :qid e9_expr_819)", pv.term, tv.term), typ: boolT}, nil
		case "ntrace":
			return cval{term: e.st.ntrace, typ: intT}, nil
		case "emitted":
			i, err := e.expr(n.Args[0])
			if err != nil {
				return cval{}, err
			}
			return cval{term: fmt.Sprintf("(select %s %s)", e.st.trace, i.term), sort: "Event"}, nil
		case "fresh":
			v, err := e.expr(n.Args[0])
			if err != nil {
				return cval{}, err
			}
			if v.typ != nil {
				if _, isSl := v.typ.Underlying().(*types.Slice); isSl {
					return cval{term: fmt.Sprintf("(> (s_base %s) %s)", v.term, e.old.alloc), typ: boolT}, nil
				}
			}
			return cval{term: fmt.Sprintf("(> %s %s)", v.term, e.old.alloc), typ: boolT}, nil
		case "nonnilchan":
			// nonnilchan(c): every value received from channel c is non-nil (to be assumed on the producer of the channel)
			v, err := e.expr(n.Args[0])
			if err != nil {
				return cval{}, err
			}
			return cval{term: fmt.Sprintf("(%s %s)", B.declFun("nonnilchan", []string{"Int"}, "Bool"), v.term), typ: boolT}, nil
		case "callid":
			// callid(Callee): the number of a callee listed under `callevents` (first argument of its Called events)
			id, ok := n.Args[0].(*ast.Ident)
			if !ok {
				return cval{}, fmt.Errorf("callid(Callee)")
			}
			if e.f.t.fc != nil {
				for ci, ce := range e.f.t.fc.CallEvents {
					if ce.Name == id.Name {
						return cval{term: strconv.Itoa(ci + 1), typ: intT}, nil
					}
				}
			}
			return cval{}, fmt.Errorf("callid(%s): not listed under callevents", id.Name)
		case "asptr":
			// asptr(x, *T): an event argument (an address) read as a pointer of the given type
			v, err := e.expr(n.Args[0])
			if err != nil {
				return cval{}, err
			}
			T, err := e.resolveType(n.Args[1])
			if err != nil {
				return cval{}, err
			}
			if B.sortOf(T) != "Int" {
				return cval{}, fmt.Errorf("asptr: %s is not a reference type", T)
			}
			return cval{term: v.term, typ: T}, nil
		case "unchanged":
			// unchanged(T.f) / unchanged(allelems(T)) / unchanged(x.f): objects allocated at function entry keep their content
			tg, err := e.resolveModifies(types.ExprString(n.Args[0]))
			if err != nil {
				return cval{}, err
			}
			var cs []string
			// further arguments: objects that are exempt (may have changed)
			var except []string
			for _, a := range n.Args[1:] {
				xv, err := e.expr(a)
				if err != nil {
					return cval{}, err
				}
				except = append(except, xv.term)
			}
			for _, g := range tg {
				cur, old := t.get(e.st, g.arr, g.sort), t.get(e.old, g.arr, g.sort)
				if cur == old {
					continue
				}
				if g.obj != "" {
					cs = append(cs, fmt.Sprintf("(= (select %s %s) (select %s %s))", cur, g.obj, old, g.obj))
					continue
				}
				qv := q(B.fresh("?p"))
				hyp := fmt.Sprintf("(and (<= 0 %s) (<= %s %s))", qv, qv, e.old.alloc)
				for _, x := range except {
					hyp = and(hyp, fmt.Sprintf("(not (= %s %s))", qv, x))
				}
				cs = append(cs, fmt.Sprintf("(forall ((%s Int)) (! (=> %s (= (select %s %s) (select %s %s))) :pattern ((select %s %s)) :qid e10_expr_869))", qv, hyp, cur, qv, old, qv, cur, qv))
			}
			return cval{term: and(cs...), typ: boolT}, nil
		case "allocated":
			v, err := e.expr(n.Args[0])
			if err != nil {
				return cval{}, err
			}
			return cval{term: fmt.Sprintf("(and (< 0 %s) (<= %s %s))", v.term, v.term, e.st.alloc), typ: boolT}, nil
		case "kind":
			v, err := e.expr(n.Args[0])
			if err != nil {
				return cval{}, err
			}
			return cval{term: fmt.Sprintf("(i_tag %s)", v.term), typ: intT}, nil
		case "kindof":
			T, err := e.resolveType(n.Args[0])
			if err != nil {
				return cval{}, err
			}
			return cval{term: B.typeID(T), typ: intT}, nil
		case "istype":
			v, err := e.expr(n.Args[0])
			if err != nil {
				return cval{}, err
			}
			T, err := e.resolveType(n.Args[1])
			if err != nil {
				return cval{}, err
			}
			return cval{term: fmt.Sprintf("(= (i_tag %s) %s)", v.term, B.typeID(T)), typ: boolT}, nil
		case "dyn":
			v, err := e.expr(n.Args[0])
			if err != nil {
				return cval{}, err
			}
			T, err := e.resolveType(n.Args[1])
			if err != nil {
				return cval{}, err
			}
			return cval{term: e.f.unbox(T, v.term), typ: T}, nil
		case "present":
			m, err := e.expr(n.Args[0])
			if err != nil {
				return cval{}, err
			}
			k, err := e.expr(n.Args[1])
			if err != nil {
				return cval{}, err
			}
			mt, ok := m.typ.Underlying().(*types.Map)
			if !ok {
				return cval{}, fmt.Errorf("present on non-map")
			}
			ks := B.sortOf(mt.Key())
			ps := arrOf("(Array " + ks + " Bool)")
			return cval{term: fmt.Sprintf("(and (not (= %s 0)) (select (select %s %s) %s))", m.term, t.get(e.st, mapPArr(mt), ps), m.term, k.term), typ: boolT}, nil
		case "callarg":
			// callarg(Callee, ordinal, argIndex): an argument of a call in this function (receiver is argument 0 of a method call)
			id, ok := n.Args[0].(*ast.Ident)
			if !ok || len(n.Args) != 3 {
				return cval{}, fmt.Errorf("callarg(Callee, ordinal, argIndex)")
			}
			o1, _ := n.Args[1].(*ast.BasicLit)
			o2, _ := n.Args[2].(*ast.BasicLit)
			if o1 == nil || o2 == nil {
				return cval{}, fmt.Errorf("callarg: literal ordinals required")
			}
			ord, _ := strconv.Atoi(o1.Value)
			ai, _ := strconv.Atoi(o2.Value)
			rec, _ := e.f.callRecAt(id.Name, ord)
			if rec == nil {
				// not executed yet on any path to this point: an unconstrained value (guard with called(...))
				if c := e.f.findCall(id.Name); c != nil {
					var tps []types.Type
					if c.Call.IsInvoke() {
						tps = append(tps, c.Call.Value.Type())
					}
					for _, a := range c.Call.Args {
						tps = append(tps, a.Type())
					}
					if ai < len(tps) {
						return cval{term: B.declConst(B.fresh("nocall"), B.sortOf(tps[ai])), typ: tps[ai]}, nil
					}
				}
				return cval{}, fmt.Errorf("callarg(%s, %d, %d): no such call", id.Name, ord, ai)
			}
			if ai >= len(rec.args) {
				return cval{}, fmt.Errorf("callarg(%s, %d, %d): no such argument", id.Name, ord, ai)
			}
			av := rec.args[ai]
			return cval{term: e.f.termOfVal(av), typ: rec.argT[ai]}, nil
		case "callres", "called":
			// callres(Callee[, ordinal[, resultIndex]]) / called(Callee[, ordinal]): the result / reach condition of a call in this function
			id, ok := n.Args[0].(*ast.Ident)
			if !ok {
				return cval{}, fmt.Errorf("%s(CalleeName, ...)", name)
			}
			ord, ridx := 0, 0
			if len(n.Args) > 1 {
				if bl, ok := n.Args[1].(*ast.BasicLit); ok {
					ord, _ = strconv.Atoi(bl.Value)
				}
			}
			if len(n.Args) > 2 {
				if bl, ok := n.Args[2].(*ast.BasicLit); ok {
					ridx, _ = strconv.Atoi(bl.Value)
				}
			}
			top := e.f
			recs := top.callLog[id.Name]
			if name == "called" && len(n.Args) == 1 && len(recs) > 1 {
				// called(F) without a call-site ordinal: at any of its call sites
				var cs []string
				for _, r := range recs {
					cs = append(cs, r.cond)
				}
				return cval{term: "(or " + strings.Join(cs, " ") + ")", typ: boolT}, nil
			}
			recp, _ := top.callRecAt(id.Name, ord)
			if recp == nil {
				// the call has not been reached on any path so far (or does not exist): never called
				if name == "called" {
					return cval{term: "false", typ: boolT}, nil
				}
				if tp := top.callResType(id.Name, ord, ridx); tp != nil {
					return cval{term: B.declConst(B.fresh("nocall"), B.sortOf(tp)), typ: tp}, nil
				}
				return cval{}, fmt.Errorf("callres(%s, %d): no such call", id.Name, ord)
			}
			rec := *recp
			if name == "called" {
				return cval{term: rec.cond, typ: boolT}, nil
			}
			v := rec.val
			if v == nil {
				return cval{}, fmt.Errorf("callres(%s): call has no result", id.Name)
			}
			var callee *types.Signature
			_ = callee
			if v.tuple != nil {
				if ridx >= len(v.tuple) {
					return cval{}, fmt.Errorf("callres(%s): result index", id.Name)
				}
				v = v.tuple[ridx]
			}
			tp := top.callResType(id.Name, ord, ridx)
			return cval{term: v.term, typ: tp}, nil
		case "evarg":
			v, err := e.expr(n.Args[0])
			if err != nil {
				return cval{}, err
			}
			id, ok := n.Args[1].(*ast.Ident)
			if !ok {
				return cval{}, fmt.Errorf("evarg(e, EventName, index)")
			}
			sorts, ok := B.events.args[id.Name]
			if !ok {
				return cval{}, fmt.Errorf("unknown event %s", id.Name)
			}
			bl, ok := n.Args[2].(*ast.BasicLit)
			if !ok {
				return cval{}, fmt.Errorf("evarg index must be a literal")
			}
			ai, _ := strconv.Atoi(bl.Value)
			if ai >= len(sorts) {
				return cval{}, fmt.Errorf("event %s has %d arguments", id.Name, len(sorts))
			}
			return cval{term: fmt.Sprintf("(%s %s)", fmt.Sprintf("ev_%s_%d", id.Name, ai), v.term), typ: sortType(sorts[ai]), sort: sorts[ai]}, nil
		case "closureof", "bindof":
			// closureof(v, "FuncName$1") : v is a closure of that function literal; bindof(v, "FuncName$1", i): its i-th captured variable
			v, err := e.expr(n.Args[0])
			if err != nil {
				return cval{}, err
			}
			bl, ok := n.Args[1].(*ast.BasicLit)
			if !ok || bl.Kind != token.STRING {
				return cval{}, fmt.Errorf("%s(v, \"Func$n\"...)", name)
			}
			fnName, _ := strconv.Unquote(bl.Value)
			fnName = strings.ReplaceAll(fnName, "ζ", "$")
			key := fnName
			if e.pkg != nil {
				key = qualifyKey(fnName, pkgQualifier(e.pkg.Path()))
			}
			lit := t.P.Funcs[key]
			if lit == nil {
				return cval{}, fmt.Errorf("no function literal %s", key)
			}
			if name == "closureof" {
				cf := B.declFun("closure_fn", []string{"Int"}, "Int")
				return cval{term: fmt.Sprintf("(= (%s %s) %s)", cf, v.term, t.closureID(lit)), typ: boolT}, nil
			}
			il, ok := n.Args[2].(*ast.BasicLit)
			if !ok {
				return cval{}, fmt.Errorf("bindof index must be a literal")
			}
			bi, _ := strconv.Atoi(il.Value)
			if bi >= len(lit.FreeVars) {
				return cval{}, fmt.Errorf("%s captures %d variables", key, len(lit.FreeVars))
			}
			bf := B.declFun(fmt.Sprintf("closure_bind:%s:%d", key, bi), []string{"Int"}, "Int")
			return cval{term: fmt.Sprintf("(%s %s)", bf, v.term), typ: lit.FreeVars[bi].Type()}, nil
		case "isev":
			v, err := e.expr(n.Args[0])
			if err != nil {
				return cval{}, err
			}
			id, ok := n.Args[1].(*ast.Ident)
			if !ok {
				return cval{}, fmt.Errorf("isev(x, EventName)")
			}
			if _, ok := B.events.args[id.Name]; !ok {
				return cval{}, fmt.Errorf("unknown event %s", id.Name)
			}
			return cval{term: fmt.Sprintf("((_ is %s) %s)", "ev_"+id.Name, v.term), typ: boolT}, nil
		case "errmsg":
			v, err := e.expr(n.Args[0])
			if err != nil {
				return cval{}, err
			}
			return cval{term: fmt.Sprintf("(err_msg %s)", v.term), typ: types.Typ[types.String]}, nil
		}
		// event constructor
		if B.events != nil {
			if sorts, ok := B.events.args[name]; ok {
				var as []string
				for _, a := range n.Args {
					as = append(as, types.ExprString(a))
				}
				_ = sorts
				term, err := e.eventTermX(name, n.Args)
				return cval{term: term, sort: "Event"}, err
			}
		}
		// spec function (uninterpreted); argument / result sorts may be given as Go types
		if sf, ok := t.DB.Specs[name]; ok {
			basic := map[string]bool{"Int": true, "Bool": true, "Str": true, "Iface": true, "Slice": true, "Event": true, "Flt": true}
			var resT types.Type
			toSort := func(raw string) (string, types.Type, error) {
				if basic[raw] {
					return raw, sortType(raw), nil
				}
				tx, err := parser.ParseExpr(raw)
				if err != nil {
					return "", nil, fmt.Errorf("spec %s: bad sort %q", name, raw)
				}
				tp, err := e.resolveType(tx)
				if err != nil {
					return "", nil, fmt.Errorf("spec %s: %v", name, err)
				}
				return B.sortOf(tp), tp, nil
			}
			var argSorts []string
			for _, a := range sf.Args {
				srt, _, err := toSort(a)
				if err != nil {
					return cval{}, err
				}
				argSorts = append(argSorts, srt)
			}
			resSort, resT, err := toSort(sf.Res)
			if err != nil {
				return cval{}, err
			}
			fn := B.declFun("spec:"+name, argSorts, resSort)
			var as []string
			for _, a := range n.Args {
				v, err := e.expr(a)
				if err != nil {
					return cval{}, err
				}
				as = append(as, v.term)
			}
			if len(as) != len(sf.Args) {
				return cval{}, fmt.Errorf("spec %s: arity", name)
			}
			return cval{term: "(" + fn + " " + strings.Join(as, " ") + ")", typ: resT, sort: resSort}, nil
		}
		// predicate (macro)
		if pd, ok := t.DB.Preds[name]; ok {
			if len(n.Args) != len(pd.Params) {
				return cval{}, fmt.Errorf("pred %s: arity", name)
			}
			if e.depth > 8 {
				return cval{}, fmt.Errorf("pred %s: expansion too deep", name)
			}
			ne := *e
			ne.depth = e.depth + 1
			ne.vars = make(map[string]cval, len(e.vars))
			for k, v := range e.vars {
				ne.vars[k] = v
			}
			for i, p := range pd.Params {
				v, err := e.expr(n.Args[i])
				if err != nil {
					return cval{}, err
				}
				ne.vars[p] = v
			}
			return ne.compile(pd.Body)
		}
		// package-level function of the code
		if e.pkg != nil {
			if obj, ok := e.pkg.Scope().Lookup(name).(*types.Func); ok {
				return e.pureCall(obj, nil, n.Args)
			}
		}
		return cval{}, fmt.Errorf("unknown function %q", name)
	}
	if sel, ok := n.Fun.(*ast.SelectorExpr); ok {
		// pkg.Func(...)
		if id, ok := sel.X.(*ast.Ident); ok {
			if _, isVar := e.vars[id.Name]; !isVar {
				if p := e.importedPkg(id.Name); p != nil {
					if obj, ok := p.Scope().Lookup(sel.Sel.Name).(*types.Func); ok {
						return e.pureCall(obj, nil, n.Args)
					}
					return cval{}, fmt.Errorf("%s.%s is not a function", id.Name, sel.Sel.Name)
				}
			}
		}
		recv, err := e.expr(sel.X)
		if err != nil {
			return cval{}, err
		}
		if recv.typ == nil {
			return cval{}, fmt.Errorf("method call on ghost value")
		}
		obj, _, _ := types.LookupFieldOrMethod(recv.typ, true, e.pkg, sel.Sel.Name)
		m, ok := obj.(*types.Func)
		if !ok {
			// unexported method of another package
			ms := types.NewMethodSet(recv.typ)
			for i := 0; i < ms.Len(); i++ {
				if ms.At(i).Obj().Name() == sel.Sel.Name {
					m, ok = ms.At(i).Obj().(*types.Func)
				}
			}
			if !ok {
				return cval{}, fmt.Errorf("no method %s on %s", sel.Sel.Name, recv.typ)
			}
		}
		return e.pureCall(m, &recv, n.Args)
	}
	return cval{}, fmt.Errorf("call form not supported")
}

// pureCall evaluates a side-effect free function/method of the code in the current state.
func (e *exprEnv) pureCall(fn *types.Func, recv *cval, argX []ast.Expr) (cval, error) {
	t := e.f.t
	B := e.B()
	sig := fn.Type().(*types.Signature)
	var args []*Val
	var argTerms []string
	var argSorts []string
	if recv != nil {
		rv := *recv
		// auto address / deref for promoted methods through embedded pointers
		if sig.Recv() != nil && !types.Identical(rv.typ, sig.Recv().Type()) {
			conv, err := e.convertRecv(rv, sig.Recv().Type())
			if err != nil {
				return cval{}, err
			}
			rv = conv
		}
		args = append(args, &Val{term: rv.term})
		argTerms = append(argTerms, rv.term)
		argSorts = append(argSorts, B.sortOf(rv.typ))
	}
	for _, a := range argX {
		v, err := e.expr(a)
		if err != nil {
			return cval{}, err
		}
		args = append(args, &Val{term: v.term})
		argTerms = append(argTerms, v.term)
		if v.typ != nil {
			argSorts = append(argSorts, B.sortOf(v.typ))
		} else {
			argSorts = append(argSorts, v.sort)
		}
	}
	if sig.Results().Len() != 1 {
		return cval{}, fmt.Errorf("%s: need exactly one result in a contract expression", fn.Name())
	}
	rt := sig.Results().At(0).Type()
	key := FuncObjKey(fn)
	isIfaceRecv := false
	if sig.Recv() != nil {
		_, isIfaceRecv = sig.Recv().Type().Underlying().(*types.Interface)
	}
	if isIfaceRecv {
		// interface method: only usable when declared pure
		if fc, ok := t.DB.Funcs[key]; ok && fc.Pure {
			argSorts[0] = "Iface"
			f := B.declFun("uf:"+fc.Key, argSorts, B.sortOf(rt))
			return cval{term: "(" + f + " " + strings.Join(argTerms, " ") + ")", typ: rt}, nil
		}
		if key == "(error).Error" {
			return cval{term: fmt.Sprintf("(err_msg %s)", argTerms[0]), typ: rt}, nil
		}
		return cval{}, fmt.Errorf("interface method %s is not declared pure", key)
	}
	if fc, ok := t.DB.Funcs[key]; ok && fc.Pure {
		f := B.declFun("uf:"+fc.Key, argSorts, B.sortOf(rt))
		term := f
		if len(argTerms) > 0 {
			term = "(" + f + " " + strings.Join(argTerms, " ") + ")"
		}
		return cval{term: term, typ: rt}, nil
	}
	sfn := t.P.Prog.FuncValue(fn)
	if sfn == nil || len(sfn.Blocks) == 0 || hasLoopOrUnsupported(sfn) {
		return cval{}, fmt.Errorf("%s cannot be evaluated in a contract (no body, loop, or not pure)", key)
	}
	sub := t.newFrame(sfn, false, e.f.depth+1)
	sub.silent = true
	if sub.depth > 6 {
		return cval{}, fmt.Errorf("%s: evaluation too deep", key)
	}
	bound := false
	for _, a := range argTerms {
		if strings.Contains(a, "?") {
			bound = true
		}
	}
	fresh0 := B.freshInTermMode
	if bound {
		B.termMode++
	}
	inlineStack = append(inlineStack, sfn)
	err := sub.run(args, e.st.clone(), "true")
	inlineStack = inlineStack[:len(inlineStack)-1]
	if bound {
		B.termMode--
		if B.freshInTermMode != fresh0 {
			return cval{}, fmt.Errorf("%s: result is not a function of its arguments, cannot be used under a quantifier", key)
		}
	}
	if err != nil {
		return cval{}, fmt.Errorf("%s: %v", key, err)
	}
	if len(sub.rets) == 0 {
		return cval{}, fmt.Errorf("%s never returns", key)
	}
	out := sub.rets[len(sub.rets)-1].vals[0].term
	for j := len(sub.rets) - 2; j >= 0; j-- {
		out = ite(sub.rets[j].cond, sub.rets[j].vals[0].term, out)
	}
	if bound {
		return cval{term: out, typ: rt}, nil
	}
	return cval{term: B.define("pure:"+fn.Name(), B.sortOf(rt), out), typ: rt}, nil
}

func (e *exprEnv) convertRecv(v cval, want types.Type) (cval, error) {
	// walk embedded fields until the receiver type matches
	if types.Identical(v.typ, want) {
		return v, nil
	}
	// value receiver wanted but pointer given
	if p, ok := v.typ.Underlying().(*types.Pointer); ok && types.Identical(p.Elem(), want) {
		return cval{term: e.f.loadStruct(e.st, v.term, p.Elem()), typ: want}, nil
	}
	var T types.Type = v.typ
	if p, ok := T.Underlying().(*types.Pointer); ok {
		T = p.Elem()
	}
	s, ok := T.Underlying().(*types.Struct)
	if !ok {
		return cval{}, fmt.Errorf("cannot convert receiver %s to %s", v.typ, want)
	}
	for i := 0; i < s.NumFields(); i++ {
		if !s.Field(i).Embedded() {
			continue
		}
		fv, err := e.selectField(v, []int{i})
		if err != nil {
			continue
		}
		if r, err := e.convertRecv(fv, want); err == nil {
			return r, nil
		}
	}
	return cval{}, fmt.Errorf("cannot convert receiver %s to %s", v.typ, want)
}

func (e *exprEnv) eventTerm(name string, args []string) (string, error) {
	var xs []ast.Expr
	for _, a := range args {
		x, err := parser.ParseExpr(a)
		if err != nil {
			return "", err
		}
		xs = append(xs, x)
	}
	return e.eventTermX(name, xs)
}

func (e *exprEnv) eventTermX(name string, args []ast.Expr) (string, error) {
	B := e.B()
	sorts, ok := B.events.args[name]
	if !ok {
		return "", fmt.Errorf("unknown event %s", name)
	}
	if len(sorts) != len(args) {
		return "", fmt.Errorf("event %s: %d args, want %d", name, len(args), len(sorts))
	}
	if len(args) == 0 {
		return "ev_" + name, nil
	}
	var as []string
	for _, a := range args {
		v, err := e.expr(a)
		if err != nil {
			return "", err
		}
		as = append(as, v.term)
	}
	return "(" + "ev_" + name + " " + strings.Join(as, " ") + ")", nil
}

// modTarget describes one `modifies` entry.
type modTarget struct {
	arr  string
	desc arrDesc
	sort string
	obj  string // "" = whole array
	elem bool   // element heap: obj is the base
}

// resolveModifies compiles a modifies entry to heap targets.
//
//	x.f        field f of object x
//	T.f        field f of every T (T a type name)
//	elems(s)   elements of the backing array of slice s
//	*p         cell p
//	mapof(m)   entries of map m
func (e *exprEnv) resolveModifies(m string) ([]modTarget, error) {
	B := e.B()
	ex, err := parser.ParseExpr(strings.ReplaceAll(m, "$", "ζ"))
	if err != nil {
		return nil, err
	}
	switch n := ex.(type) {
	case *ast.CallExpr:
		id, _ := n.Fun.(*ast.Ident)
		if id != nil && id.Name == "elems" {
			v, err := e.expr(n.Args[0])
			if err != nil {
				return nil, err
			}
			sl, ok := v.typ.Underlying().(*types.Slice)
			if !ok {
				return nil, fmt.Errorf("elems of non-slice")
			}
			return []modTarget{{arr: elemArr(sl.Elem()), desc: arrDesc{'E', sl.Elem()}, sort: arrOf(arrOf(B.sortOf(sl.Elem()))), obj: fmt.Sprintf("(s_base %s)", v.term), elem: true}}, nil
		}
		if id != nil && id.Name == "allelems" {
			T, err := e.resolveType(n.Args[0])
			if err != nil {
				return nil, err
			}
			return []modTarget{{arr: elemArr(T), desc: arrDesc{'E', T}, sort: arrOf(arrOf(B.sortOf(T)))}}, nil
		}
		if id != nil && id.Name == "allmaps" {
			T, err := e.resolveType(n.Args[0])
			if err != nil {
				return nil, err
			}
			mt, ok := T.Underlying().(*types.Map)
			if !ok {
				return nil, fmt.Errorf("allmaps of non-map type")
			}
			ks, vs := B.sortOf(mt.Key()), B.sortOf(mt.Elem())
			return []modTarget{{arr: mapPArr(mt), desc: arrDesc{'P', mt}, sort: arrOf("(Array " + ks + " Bool)")}, {arr: mapVArr(mt), desc: arrDesc{'V', mt}, sort: arrOf("(Array " + ks + " " + vs + ")")}}, nil
		}
		if id != nil && id.Name == "mapof" {
			v, err := e.expr(n.Args[0])
			if err != nil {
				return nil, err
			}
			mt, ok := v.typ.Underlying().(*types.Map)
			if !ok {
				return nil, fmt.Errorf("mapof of non-map")
			}
			ks, vs := B.sortOf(mt.Key()), B.sortOf(mt.Elem())
			return []modTarget{{arr: mapPArr(mt), desc: arrDesc{'P', mt}, sort: arrOf("(Array " + ks + " Bool)"), obj: v.term}, {arr: mapVArr(mt), desc: arrDesc{'V', mt}, sort: arrOf("(Array " + ks + " " + vs + ")"), obj: v.term}}, nil
		}
	case *ast.StarExpr:
		v, err := e.expr(n.X)
		if err != nil {
			return nil, err
		}
		p, ok := v.typ.Underlying().(*types.Pointer)
		if !ok {
			return nil, fmt.Errorf("*p of non-pointer")
		}
		return []modTarget{{arr: cellArr(p.Elem()), desc: arrDesc{'M', p.Elem()}, sort: arrOf(B.sortOf(p.Elem())), obj: v.term}}, nil
	case *ast.SelectorExpr:
		// T.f ?
		if id, ok := n.X.(*ast.Ident); ok {
			if _, isVar := e.vars[id.Name]; !isVar {
				if T, err := e.resolveType(id); err == nil {
					path, fv := fieldPath(T, n.Sel.Name, e.pkg)
					if fv == nil || len(path) != 1 {
						return nil, fmt.Errorf("no direct field %s in %s", n.Sel.Name, T)
					}
					return []modTarget{{arr: fieldArr(T, fv.Name()), desc: arrDesc{'F', fv.Type()}, sort: arrOf(B.sortOf(fv.Type()))}}, nil
				}
			}
		}
		// pkg.T.f ?
		if sx, ok := n.X.(*ast.SelectorExpr); ok {
			if pid, ok := sx.X.(*ast.Ident); ok && e.importedPkg(pid.Name) != nil {
				if T, err := e.resolveType(sx); err == nil {
					path, fv := fieldPath(T, n.Sel.Name, nil)
					if fv == nil || len(path) != 1 {
						return nil, fmt.Errorf("no direct field %s in %s", n.Sel.Name, T)
					}
					return []modTarget{{arr: fieldArr(T, fv.Name()), desc: arrDesc{'F', fv.Type()}, sort: arrOf(B.sortOf(fv.Type()))}}, nil
				}
			}
		}
		v, err := e.expr(n.X)
		if err != nil {
			return nil, err
		}
		path, fv := fieldPath(v.typ, n.Sel.Name, e.pkg)
		if fv == nil {
			return nil, fmt.Errorf("no field %s in %s", n.Sel.Name, v.typ)
		}
		obj := v
		if len(path) > 1 {
			obj, err = e.selectField(v, path[:len(path)-1])
			if err != nil {
				return nil, err
			}
		}
		T := obj.typ
		if p, ok := T.Underlying().(*types.Pointer); ok {
			T = p.Elem()
		}
		return []modTarget{{arr: fieldArr(T, fv.Name()), desc: arrDesc{'F', fv.Type()}, sort: arrOf(B.sortOf(fv.Type())), obj: obj.term}}, nil
	}
	return nil, fmt.Errorf("unsupported modifies entry %q", m)
}

func (e *exprEnv) applyModifies(m string, st *State) error {
	t := e.f.t
	B := e.B()
	tg, err := e.resolveModifies(m)
	if err != nil {
		return err
	}
	for _, g := range tg {
		old := t.get(st, g.arr, g.sort)
		if g.obj == "" {
			st.heap[g.arr] = B.declConst(B.fresh(g.arr), g.sort)
			t.noteVersion(st.heap[g.arr], st.alloc)
			continue
		}
		inner := g.sort[len("(Array Int ") : len(g.sort)-1]
		fv := B.declConst(B.fresh(g.arr+".new"), inner)
		t.set(st, g.arr, g.sort, fmt.Sprintf("(store %s %s %s)", old, g.obj, fv))
	}
	return nil
}

// modifiesArrays is the static (effect-scan) view of a modifies entry: which arrays.
func (t *Trans) modifiesArrays(fc *FuncContract, plan callPlan, m string) (map[string]arrDesc, error) {
	// evaluate in a throw-away environment with fresh parameter symbols
	f := t.newFrame(t.topFn(), false, 0)
	f.silent = true
	f.entry = t.entry
	env := f.baseEnvNoParams(t.entry.clone())
	if pk := t.P.ByPath[fc.PkgPath]; pk != nil {
		env.pkg = pk.Types
	}
	sig := plan.sig
	if sig == nil {
		return nil, fmt.Errorf("no signature")
	}
	bindp := func(n string, tp types.Type) {
		env.vars[n] = cval{term: t.B.declConst(t.B.fresh("modarg"), t.B.sortOf(tp)), typ: tp}
	}
	if sig.Recv() != nil {
		rn := plan.recvName
		if plan.callee != nil && len(plan.callee.Params) > 0 {
			rn = plan.callee.Params[0].Name()
		}
		bindp(rn, sig.Recv().Type())
		bindp("self", sig.Recv().Type())
	}
	for i := 0; i < sig.Params().Len(); i++ {
		n := sig.Params().At(i).Name()
		if n == "" || n == "_" {
			n = fmt.Sprintf("a%d", i)
		}
		if i < len(fc.Params) {
			n = fc.Params[i]
		}
		bindp(n, sig.Params().At(i).Type())
	}
	for _, l := range fc.Lets {
		v, err := env.compile(l[1])
		if err == nil {
			env.vars[l[0]] = v
		}
	}
	tg, err := env.resolveModifies(m)
	if err != nil {
		return nil, err
	}
	out := map[string]arrDesc{}
	for _, g := range tg {
		out[g.arr] = g.desc
	}
	return out, nil
}

var _ = ssa.Function{}

// callResType finds the static type of a logged call result.
func (f *frame) callResType(name string, ord, ridx int) types.Type {
	k := 0
	for _, b := range f.fn.Blocks {
		for _, in := range b.Instrs {
			c, ok := in.(*ssa.Call)
			if !ok {
				continue
			}
			n, n2 := callSiteNames(&c.Call)
			if n != name && n2 != name {
				continue
			}
			_ = k
			if tup, ok := c.Type().(*types.Tuple); ok {
				if ridx < tup.Len() {
					return tup.At(ridx).Type()
				}
				return nil
			}
			return c.Type()
		}
	}
	return nil
}

// selectPatterns finds array reads indexed exactly by the bound variable: (select A qv) with A free of bound variables.
// They make good E-matching triggers (instantiate only for indices that are actually read).
func selectPatterns(body, qv string) []string {
	var out []string
	body = blankExposed(body)
	seen := map[string]bool{}
	from := 0
	for {
		i := strings.Index(body[from:], "(select ")
		if i < 0 {
			break
		}
		start := from + i
		args, end, ok := parseArgs(body, start+len("(select "), 2)
		from = start + 1
		if !ok {
			continue
		}
		idxOK := args[1] == qv
		if !idxOK && strings.HasPrefix(args[1], "(+ ") && strings.HasSuffix(args[1], " "+qv+")") {
			// slice element read: index is (+ offset qv) with an offset free of bound variables
			off := args[1][3 : len(args[1])-len(qv)-2]
			idxOK = !strings.Contains(off, "?") && !strings.Contains(off, "(ite ")
		}
		if !idxOK || strings.Contains(args[0], "?") || strings.Contains(args[0], "(ite ") || strings.Contains(args[0], "(and ") || strings.Contains(args[0], "(not ") {
			continue // not a legal / useful E-matching pattern
		}
		t := body[start : end+1]
		if !seen[t] {
			seen[t] = true
			out = append(out, t)
		}
	}
	return out
}

// exposeOuter conjoins, outside an existential quantifier, a trivially true literal expose(t) for every element read t
// of its body that does not depend on the bound variable. When the quantifier ends up negated (a goal), these reads
// would otherwise only occur below the resulting universal quantifier and no E-matching trigger of the hypotheses
// could fire on them.
func (e *exprEnv) exposeOuter(body ast.Expr, bound string, term string) string {
	if os.Getenv("GVC_EXPOSE") == "" && (e.f.t.fc == nil || !e.f.t.fc.Expose) { // opt-in per contract (`expose`): it slows down proofs that do not need it
		return term
	}
	B := e.B()
	var lits []string
	seen := map[string]bool{}
	mentions := func(x ast.Node) bool {
		found := false
		ast.Inspect(x, func(n ast.Node) bool {
			if id, ok := n.(*ast.Ident); ok && id.Name == bound {
				found = true
			}
			return !found
		})
		return found
	}
	ast.Inspect(body, func(n ast.Node) bool {
		if c, ok := n.(*ast.CallExpr); ok {
			if id, ok := c.Fun.(*ast.Ident); ok && id.Name == "old" {
				return false // evaluated in another state
			}
		}
		ix, ok := n.(*ast.IndexExpr)
		if !ok {
			return true
		}
		if mentions(ix) {
			return true
		}
		save := B.termMode
		B.termMode++
		v, err := e.expr(ix)
		B.termMode = save
		if err != nil || v.typ == nil || v.term == "" || seen[v.term] {
			return false
		}
		seen[v.term] = true
		sortS := B.sortOf(v.typ)
		fn := B.declFun("expose:"+sortS, []string{sortS}, "Bool")
		B.rawDecl("exposeax:"+sortS, fmt.Sprintf("(assert (forall ((x %s)) (! (%s x) :pattern ((%s x)) :qid e11_expr_1695)))", sortS, fn, fn))
		lits = append(lits, fmt.Sprintf("(%s %s)", fn, v.term))
		return false
	})
	if len(lits) == 0 {
		return term
	}
	return "(and " + strings.Join(lits, " ") + " " + term + ")"
}

// blankExposed removes the expose(...) literals from a term before triggers are chosen: exposed reads help a goal,
// as triggers of a hypothesis they only cause matching loops.
func blankExposed(body string) string {
	for {
		i := strings.Index(body, "(|expose:")
		if i < 0 {
			return body
		}
		depth, j := 0, i
		inBar := false
		for ; j < len(body); j++ {
			c := body[j]
			if c == '|' {
				inBar = !inBar
			}
			if inBar {
				continue
			}
			if c == '(' {
				depth++
			} else if c == ')' {
				depth--
				if depth == 0 {
					break
				}
			}
		}
		if j >= len(body) {
			return body
		}
		body = body[:i] + "true" + body[j+1:]
	}
}

var qidCounter int

type forallParts struct {
	binders string // "(x S) (y T)"
	body    string
	pats    []string // each a (possibly multi-) pattern: the text between ":pattern (" and ") :qid e12_expr_1744"
}

// universal quantifiers built by mkForall, by their text (directly nested ones are merged into one binder list)
var forallInfo = map[string]forallParts{}

// mkForall builds (forall ((qv sort)) (=> guard body)) with explicit triggers. A body that is itself a universal
// quantifier built here is merged into one quantifier whose triggers are the combinations of the inner and outer ones,
// so that every trigger mentions all bound variables.
func mkForall(qv, sort, guard, body string, pats []string) string {
	inner, nested := forallInfo[body]
	binders := fmt.Sprintf("(%s %s)", qv, sort)
	full := body
	if nested {
		full = inner.body
		binders += " " + inner.binders
	}
	if guard != "" {
		full = fmt.Sprintf("(=> %s %s)", guard, full)
	}
	var all []string
	if nested {
		outer := selectPatterns(full, qv)
		if len(outer) == 0 {
			outer = pats
		}
		switch {
		case len(outer) > 0 && len(inner.pats) > 0:
			for _, po := range outer {
				for _, pi := range inner.pats {
					if len(all) < 6 {
						if strings.Contains(pi, po) {
							all = append(all, pi)
						} else {
							all = append(all, po+" "+pi)
						}
					}
				}
			}
		case len(inner.pats) > 0:
			// the outer variable occurs in no array read of its own: usable only if the inner triggers mention it
			for _, pi := range inner.pats {
				if strings.Contains(pi, qv) {
					all = append(all, pi)
				}
			}
		default:
			all = outer
		}
	} else {
		all = pats
	}
	if strings.HasPrefix(full, "(! ") {
		all = nil // explicit trigger(...) given in the contract
	}
	var sb strings.Builder
	fmt.Fprintf(&sb, "(forall (%s) ", binders)
	if len(all) == 0 {
		sb.WriteString(full)
	} else {
		sb.WriteString("(! ")
		sb.WriteString(full)
		for _, p := range all {
			sb.WriteString(" :pattern (")
			sb.WriteString(p)
			sb.WriteString(")")
		}
		qidCounter++
		fmt.Fprintf(&sb, " :qid q%d)", qidCounter)
	}
	sb.WriteString(")")
	out := sb.String()
	forallInfo[out] = forallParts{binders: binders, body: full, pats: all}
	return out
}

func withPatterns(body string, pats []string) string {
	if len(pats) == 0 || strings.HasPrefix(body, "(! ") {
		return body
	}
	var sb strings.Builder
	sb.WriteString("(! ")
	sb.WriteString(body)
	for _, p := range pats {
		sb.WriteString(" :pattern (")
		sb.WriteString(p)
		sb.WriteString(")")
	}
	qidCounter++
	fmt.Fprintf(&sb, " :qid q%d)", qidCounter)
	return sb.String()
}

// versionAxiom asserts, for the heap array version a value was just loaded from, that every reference stored in it is
// allocated (bounded by the allocation counter recorded when the version was created). It is a true invariant of
// Go memory; it is only emitted for loads that occur under a quantifier of a contract.
func (e *exprEnv) versionAxiom(v cval) {
	t := e.f.t
	B := e.B()
	ver, depth, alloc := t.lastVersion, t.lastDepth, t.lastAlloc
	if ver == "" || v.typ == nil {
		return
	}
	key := "veraxiom:" + ver
	if B.declared[key] {
		return
	}
	var sel, vars string
	switch depth {
	case 1:
		sel, vars = fmt.Sprintf("(select %s ?wp)", ver), "((?wp Int))"
	case 2:
		sel, vars = fmt.Sprintf("(select (select %s ?wp) ?wi)", ver), "((?wp Int) (?wi Int))"
	default:
		return
	}
	f := t.typeFactsA(alloc, sel, v.typ)
	if f == "true" {
		return
	}
	B.declared[key] = true
	B.assert(fmt.Sprintf("(forall %s (! %s :pattern (%s) :qid e15_expr_1866))", vars, f, sel))
}

// quantBody makes the heap well-formedness facts of the loads inside a quantified body antecedents of it.
// The facts hold in every real execution, so this is sound in either polarity (it can only cost completeness).
func quantBody(facts []string, body string, existential bool) string {
	if len(facts) == 0 {
		return body
	}
	seen := map[string]bool{}
	var fs []string
	for _, f := range facts {
		if !seen[f] {
			seen[f] = true
			fs = append(fs, f)
		}
	}
	if existential {
		// exists: conjunction (provable for the witness from the facts recorded where the code loaded the same value)
		return and(and(fs...), body)
	}
	return implies(and(fs...), body)
}

// findCall returns the first call instruction to a callee with the given short name.
func (f *frame) findCall(name string) *ssa.Call {
	for _, b := range f.fn.Blocks {
		for _, in := range b.Instrs {
			c, ok := in.(*ssa.Call)
			if !ok {
				continue
			}
			n, n2 := callSiteNames(&c.Call)
			if n == name || n2 == name {
				return c
			}
		}
	}
	return nil
}

// callSiteNames: the names a call site is known by in contracts (Callee, and Receiver_Callee for methods).
func callSiteNames(c *ssa.CallCommon) (string, string) {
	n, n2 := "", ""
	if c.IsInvoke() {
		n = c.Method.Name()
	} else if fn := c.StaticCallee(); fn != nil {
		n = fn.Name()
		if i := strings.Index(n, "["); i > 0 {
			n = n[:i] // instance of a generic function: known by the name of the generic
		}
		if fn.Signature.Recv() != nil {
			rt := fn.Signature.Recv().Type()
			if p, ok := rt.(*types.Pointer); ok {
				rt = p.Elem()
			}
			if nt, ok := rt.(*types.Named); ok {
				n2 = nt.Obj().Name() + "_" + n
			}
		}
	}
	return n, n2
}

// callSites: the call sites of a callee in this function that produce a value, in source order. The ordinals of
// callres / callarg / called(F, k) count these (a site not reached yet on the current path has no record).
func (f *frame) callSites(name string) []*ssa.CallCommon {
	if f.sitesCache == nil {
		f.sitesCache = map[string][]*ssa.CallCommon{}
	}
	if s, ok := f.sitesCache[name]; ok {
		return s
	}
	type site struct {
		c   *ssa.CallCommon
		pos token.Pos
		idx int
	}
	var sites []site
	k := 0
	for _, b := range f.fn.Blocks {
		for _, in := range b.Instrs {
			c, ok := in.(*ssa.Call)
			if !ok {
				continue
			}
			n, n2 := callSiteNames(&c.Call)
			if n == name || n2 == name {
				sites = append(sites, site{&c.Call, c.Pos(), k})
				k++
			}
		}
	}
	sort.SliceStable(sites, func(i, j int) bool {
		if sites[i].pos != sites[j].pos {
			return sites[i].pos < sites[j].pos
		}
		return sites[i].idx < sites[j].idx
	})
	var out []*ssa.CallCommon
	for _, s := range sites {
		out = append(out, s.c)
	}
	f.sitesCache[name] = out
	return out
}

// callRecAt returns the record of the ord-th call site (source order) of name, or nil if that site does not exist
// (exists=false) or has not been executed on the way to the current point.
func (f *frame) callRecAt(name string, ord int) (rec *callRec, exists bool) {
	sites := f.callSites(name)
	if ord >= len(sites) {
		return nil, false
	}
	for i := range f.callLog[name] {
		if f.callLog[name][i].common == sites[ord] {
			return &f.callLog[name][i], true
		}
	}
	return nil, true
}
