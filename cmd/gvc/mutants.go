package main

// Must-fail corpus: textual mutations applied through the loader overlay; each names the obligation that must then fail.

import (
	"fmt"
	"os"
	"path/filepath"
	"sort"
	"strings"
)

type Mutant struct {
	Name     string   `json:"name"`
	Property string   `json:"property"`
	File     string   `json:"file"` // relative to the repo
	Old      string   `json:"old"`
	New      string   `json:"new"`
	MustFail []string `json:"must_fail"` // obligation base names, at least one must fail
	Note     string   `json:"note,omitempty"`
}

func loadMutants() []Mutant {
	var all []Mutant
	files, _ := filepath.Glob(filepath.Join(verifDir, "selftest", "mutants", "*.json"))
	sort.Strings(files)
	for _, f := range files {
		var ms []Mutant
		if err := readJSON(f, &ms); err != nil {
			fmt.Printf("selftest: cannot read %s: %v\n", f, err)
			continue
		}
		all = append(all, ms...)
	}
	return all
}

// runMutant returns (killed, skipped, detail)
func runMutant(m Mutant, wd string) (bool, bool, string) {
	path := filepath.Join(repoDir(), m.File)
	data, err := os.ReadFile(path)
	if err != nil {
		return false, true, "file missing"
	}
	src := string(data)
	if strings.Count(src, m.Old) != 1 {
		return false, true, fmt.Sprintf("anchor text occurs %d times", strings.Count(src, m.Old))
	}
	overlay := map[string][]byte{path: []byte(strings.Replace(src, m.Old, m.New, 1))}
	P, DB, err := loadAll(overlay)
	if err != nil {
		return false, true, "mutant does not load: " + err.Error()
	}
	pr := runProperty(P, DB, m.Property, 10, 0, false, wd, loadKnownFindings(), loadUnclaimed())
	failed := map[string]bool{}
	for k := range pr.FnErrors {
		failed[k+"#translate"] = true
	}
	for _, oc := range pr.Outcomes {
		if !oc.OK {
			failed[oc.O.Base()] = true
		}
	}
	for _, want := range m.MustFail {
		if failed[want] {
			return true, false, want
		}
	}
	var got []string
	for k := range failed {
		got = append(got, k)
	}
	sort.Strings(got)
	if len(got) > 0 {
		return true, false, "killed by other obligations: " + strings.Join(got, ", ")
	}
	return false, false, "mutant verifies"
}

func runMutantsFor(prop string, wd string) int {
	rc := 0
	for _, m := range loadMutants() {
		if prop != "" && m.Property != prop {
			continue
		}
		killed, skipped, detail := runMutant(m, wd)
		switch {
		case skipped:
			fmt.Printf("selftest: mutant %s skipped (%s)\n", m.Name, detail)
		case killed:
			fmt.Printf("selftest: mutant %s killed (%s)\n", m.Name, detail)
		default:
			fmt.Printf("selftest: mutant %s SURVIVED: %s\n", m.Name, detail)
			rc = 2
		}
	}
	return rc
}

func cmdSelftest(args []string) int {
	wd := workDir()
	defer os.RemoveAll(wd)
	prop := ""
	if len(args) > 0 {
		prop = args[0]
	}
	return runMutantsFor(prop, wd)
}
