package main

// Effect inference: which heap arrays a loop body / a callee without contract may modify.
// Summaries are computed bottom-up over the CHA call graph (x/tools callgraph/cha) once per program.

import (
	"fmt"
	"go/types"
	"strings"

	"golang.org/x/tools/go/callgraph"
	"golang.org/x/tools/go/callgraph/cha"
	"golang.org/x/tools/go/ssa"
)

type arrDesc struct {
	kind byte // F field, E element, M cell, P map presence, V map values, L local
	typ  types.Type
}

func (t *Trans) descSort(d arrDesc) string {
	B := t.B
	switch d.kind {
	case 'F', 'M':
		return arrOf(B.sortOf(d.typ))
	case 'E':
		return arrOf(arrOf(B.sortOf(d.typ)))
	case 'P':
		mt := d.typ.Underlying().(*types.Map)
		return arrOf("(Array " + B.sortOf(mt.Key()) + " Bool)")
	case 'V':
		mt := d.typ.Underlying().(*types.Map)
		return arrOf("(Array " + B.sortOf(mt.Key()) + " " + B.sortOf(mt.Elem()) + ")")
	case 'L':
		return B.sortOf(d.typ)
	}
	return "Int"
}

type effects struct {
	arrs  map[string]arrDesc
	dirty map[string]bool // arrays possibly written at objects that existed at function entry
	all   bool
	ext   bool // everything except arrays holding repository-declared types (external library callee)
	trace bool
	alloc bool
	why   string // first reason for `all`
}

func (e *effects) setAll(why string) {
	if !e.all {
		e.all = true
		e.why = why
	}
}

func newEffects() *effects { return &effects{arrs: map[string]arrDesc{}, dirty: map[string]bool{}} }

// rootedFresh: the address is inside an object allocated by this very function activation.
func rootedFresh(addr ssa.Value, scope map[*ssa.BasicBlock]bool) bool {
	in := func(v ssa.Instruction) bool { return scope == nil || scope[v.Block()] }
	switch a := addr.(type) {
	case *ssa.Alloc:
		return in(a)
	case *ssa.FieldAddr:
		return rootedFresh(a.X, scope)
	case *ssa.IndexAddr:
		switch x := a.X.(type) {
		case *ssa.Alloc:
			return in(x)
		case *ssa.MakeSlice:
			return in(x)
		case *ssa.Slice:
			if al, ok := x.X.(*ssa.Alloc); ok {
				return in(al)
			}
		}
	}
	return false
}

func (e *effects) merge(o *effects) bool {
	ch := false
	if o.all && !e.all {
		e.all, ch = true, true
		e.why = o.why
	}
	if o.ext && !e.ext {
		e.ext, ch = true, true
	}
	if o.trace && !e.trace {
		e.trace, ch = true, true
	}
	if o.alloc && !e.alloc {
		e.alloc, ch = true, true
	}
	for k, v := range o.arrs {
		if strings.HasPrefix(k, "L:") {
			continue
		}
		if _, ok := e.arrs[k]; !ok {
			e.arrs[k] = v
			ch = true
		}
		// effects of callees are never known to be confined to fresh objects
		e.dirty[k] = true
	}
	return ch
}

func (e *effects) addMap(mt *types.Map) {
	e.arrs[mapPArr(mt)] = arrDesc{'P', mt}
	e.arrs[mapVArr(mt)] = arrDesc{'V', mt}
}

func addTypeStoreTargets(T types.Type, fld *types.Var, e *effects) {
	if runtimeInternalField(fld) {
		return
	}
	if _, isS := fld.Type().Underlying().(*types.Struct); isS {
		addStructTargets(fld.Type(), e)
		return
	}
	e.arrs[fieldArr(T, fld.Name())] = arrDesc{'F', fld.Type()}
}

func addStructTargets(T types.Type, e *effects) {
	s := T.Underlying().(*types.Struct)
	for i := 0; i < s.NumFields(); i++ {
		addTypeStoreTargets(T, s.Field(i), e)
	}
}

// staticStoreTargets: arrays possibly written by a store through addr. localName names private locals.
func staticStoreTargets(addr ssa.Value, e *effects, localName func(a *ssa.Alloc) string) {
	switch a := addr.(type) {
	case *ssa.FieldAddr:
		_, T, ok := isStructPtr(a.X.Type())
		if !ok {
			e.all = true
			return
		}
		addTypeStoreTargets(T, T.Underlying().(*types.Struct).Field(a.Field), e)
	case *ssa.IndexAddr:
		var elem types.Type
		switch u := a.X.Type().Underlying().(type) {
		case *types.Slice:
			elem = u.Elem()
		case *types.Pointer:
			if arr, ok := u.Elem().Underlying().(*types.Array); ok {
				elem = arr.Elem()
			}
		}
		if elem == nil {
			e.all = true
			return
		}
		if _, isS := elem.Underlying().(*types.Struct); isS {
			addStructTargets(elem, e)
			return
		}
		e.arrs[elemArr(elem)] = arrDesc{'E', elem}
	case *ssa.Alloc:
		pt := a.Type().(*types.Pointer).Elem()
		if _, isS := pt.Underlying().(*types.Struct); isS {
			addStructTargets(pt, e)
			return
		}
		if arr, ok := pt.Underlying().(*types.Array); ok {
			e.arrs[elemArr(arr.Elem())] = arrDesc{'E', arr.Elem()}
			return
		}
		if !a.Heap {
			if localName != nil {
				e.arrs[localName(a)] = arrDesc{'L', pt}
			}
			return
		}
		e.arrs[cellArr(pt)] = arrDesc{'M', pt}
	default:
		p, ok := addr.Type().Underlying().(*types.Pointer)
		if !ok {
			e.all = true
			return
		}
		if _, isS := p.Elem().Underlying().(*types.Struct); isS {
			addStructTargets(p.Elem(), e)
			return
		}
		if arr, ok := p.Elem().Underlying().(*types.Array); ok {
			e.arrs[elemArr(arr.Elem())] = arrDesc{'E', arr.Elem()}
			return
		}
		e.arrs[cellArr(p.Elem())] = arrDesc{'M', p.Elem()}
	}
}

func isStructAlloc(a *ssa.Alloc) bool {
	_, ok := a.Type().(*types.Pointer).Elem().Underlying().(*types.Struct)
	return ok
}

func (f *frame) localName(a *ssa.Alloc) string {
	return fmt.Sprintf("L:f%d.%s", f.id, a.Name())
}

// directEffects: effects of one instruction, calls excluded (handled by the caller).
func directEffects(in ssa.Instruction, e *effects, localName func(a *ssa.Alloc) string, scope map[*ssa.BasicBlock]bool) {
	switch x := in.(type) {
	case *ssa.Store:
		if rootedFresh(x.Addr, scope) {
			staticStoreTargets(x.Addr, e, localName)
		} else {
			tmp := newEffects()
			staticStoreTargets(x.Addr, tmp, localName)
			for k, v := range tmp.arrs {
				e.arrs[k] = v
				e.dirty[k] = true
			}
			if tmp.all {
				e.all = true
			}
		}
	case *ssa.MapUpdate:
		mt := x.Map.Type().Underlying().(*types.Map)
		e.addMap(mt)
		if mm, fresh := x.Map.(*ssa.MakeMap); !fresh || !(scope == nil || scope[mm.Block()]) {
			e.dirty[mapPArr(mt)], e.dirty[mapVArr(mt)] = true, true
		}
	case *ssa.Alloc:
		e.alloc = true
		staticStoreTargets(x, e, localName)
	case *ssa.MakeSlice:
		e.alloc = true
		el := x.Type().Underlying().(*types.Slice).Elem()
		e.arrs[elemArr(el)] = arrDesc{'E', el}
	case *ssa.MakeMap:
		e.alloc = true
		e.addMap(x.Type().Underlying().(*types.Map))
	case *ssa.MakeChan, *ssa.MakeClosure:
		e.alloc = true
	case *ssa.Send:
		e.trace = true
	case *ssa.Convert:
		if _, ok := x.Type().Underlying().(*types.Slice); ok {
			e.alloc = true
		}
	}
}

func builtinEffects(name string, c *ssa.CallCommon, e *effects) {
	switch name {
	case "append":
		el := c.Args[0].Type().Underlying().(*types.Slice).Elem()
		e.arrs[elemArr(el)] = arrDesc{'E', el}
		e.dirty[elemArr(el)] = true
		e.alloc = true
	case "copy":
		if sl, ok := c.Args[0].Type().Underlying().(*types.Slice); ok {
			e.arrs[elemArr(sl.Elem())] = arrDesc{'E', sl.Elem()}
			e.dirty[elemArr(sl.Elem())] = true
		}
	case "delete", "clear":
		if mt, ok := c.Args[0].Type().Underlying().(*types.Map); ok {
			e.addMap(mt)
			e.dirty[mapPArr(mt)], e.dirty[mapVArr(mt)] = true, true
		} else {
			e.all = true
		}
	}
}

// ---------------------------------------------------------------------------
// whole-program summaries

type Summaries struct {
	fn    map[*ssa.Function]*effects
	sites map[ssa.CallInstruction][]*ssa.Function
}

// contractEffects gives the effects a contract declares (modular view of a callee under contract).
func (t *Trans) contractEffects(plan callPlan, e *effects) {
	fc := plan.fc
	e.alloc = true
	if len(fc.Emits) > 0 {
		e.trace = true
	}
	if fc.Pure || fc.NoEffect {
		return
	}
	if !fc.HasMod {
		if fc.Kind == "func" {
			// no modifies clause: fall back to the inferred summary of the body
			if s := t.P.summaries(t.DB); s != nil && plan.callee != nil {
				if se := s.fn[plan.callee]; se != nil {
					e.merge(se)
					return
				}
			}
			e.all, e.trace = true, true
		}
		return
	}
	for _, m := range fc.Modifies {
		if m == "trace" {
			e.trace = true
			continue
		}
		arrs, err := t.modifiesArrays(fc, plan, m)
		if err != nil {
			e.all = true
			continue
		}
		for k, v := range arrs {
			e.arrs[k] = v
			e.dirty[k] = true
		}
	}
}

func (P *Program) summaries(DB *ContractDB) *Summaries {
	if P.sums != nil {
		return P.sums
	}
	S := &Summaries{fn: map[*ssa.Function]*effects{}, sites: map[ssa.CallInstruction][]*ssa.Function{}}
	P.sums = S // set early: contractEffects may ask recursively (sees partial results, refined by the fixpoint)
	cg := cha.CallGraph(P.Prog)
	dummy := &Trans{P: P, DB: DB, B: NewBuilder(DB.Events), arrSort: map[string]string{}, ordCnt: map[string]int{}, trusted: map[string]bool{}}
	dummy.entry = dummy.newState("0")
	var fns []*ssa.Function
	for fn, node := range cg.Nodes {
		if fn == nil || len(fn.Blocks) == 0 {
			continue
		}
		fns = append(fns, fn)
		for _, out := range node.Out {
			if out.Site != nil {
				S.sites[out.Site] = append(S.sites[out.Site], out.Callee.Func)
			}
		}
	}
	// direct effects
	type pending struct {
		fn    *ssa.Function
		calls []ssa.CallInstruction
	}
	var pend []pending
	for _, fn := range fns {
		e := newEffects()
		S.fn[fn] = e
		p := pending{fn: fn}
		for _, b := range fn.Blocks {
			for _, in := range b.Instrs {
				directEffects(in, e, nil, nil)
				if ci, ok := in.(ssa.CallInstruction); ok {
					if _, isGo := in.(*ssa.Go); isGo {
						continue // spawned goroutines are outside the sequential model
					}
					p.calls = append(p.calls, ci)
				}
			}
		}
		pend = append(pend, p)
	}
	// fixpoint
	for iter := 0; iter < 50; iter++ {
		changed := false
		for _, p := range pend {
			e := S.fn[p.fn]
			if e.all && e.trace {
				continue
			}
			for _, ci := range p.calls {
				ce := newEffects()
				dummy.siteEffects(nil, ci.Common(), ci, ce, S)
				if e.merge(ce) {
					changed = true
				}
			}
		}
		if !changed {
			break
		}
	}
	_ = callgraph.Node{}
	return S
}

// siteEffects: effects of one call site, using contracts first, then the library table, then summaries.
func (t *Trans) siteEffects(f *frame, c *ssa.CallCommon, ci ssa.CallInstruction, e *effects, S *Summaries) {
	plan := t.planCall(f, c)
	switch plan.kind {
	case planNoop, planPureUF:
		return
	case planNoEffect:
		e.alloc = true
		return
	case planBuiltin:
		builtinEffects(plan.builtin, c, e)
		return
	case planContract:
		t.contractEffects(plan, e)
		return
	}
	// inline / havoc: use summaries of the possible callees
	var callees []*ssa.Function
	if plan.callee != nil {
		callees = []*ssa.Function{plan.callee}
	} else if ci != nil && S != nil {
		callees = S.sites[ci]
	}
	if len(callees) == 0 && !c.IsInvoke() {
		// call of a function-typed parameter: accounted for at the call sites of this function (funcArgEffects)
		if _, isParam := c.Value.(*ssa.Parameter); isParam {
			return
		}
	}
	if len(callees) == 0 {
		if c.IsInvoke() && c.Method.Pkg() != nil && noEffectPkgs[c.Method.Pkg().Path()] {
			e.alloc = true
			return
		}
		// an unknown callee cannot append to the ghost trace: events come only from contracts in this repository
		if c.IsInvoke() && (c.Method.Pkg() == nil || !strings.HasPrefix(c.Method.Pkg().Path(), repoModule)) {
			// method of an interface declared outside the repository with no implementation in the program
			e.ext, e.alloc = true, true
			t.funcArgEffects(f, c, e, S)
			return
		}
		e.setAll("dynamic call / repo interface without implementation: " + plan.name)
		e.alloc = true
		return
	}
	for _, callee := range callees {
		if len(callee.Blocks) == 0 {
			if obj, ok := callee.Object().(*types.Func); ok && obj.Pkg() != nil && noEffectPkgs[obj.Pkg().Path()] && !effectfulLib[fullName(obj)] {
				e.alloc = true
				continue
			}
			if fc, ok := t.DB.Funcs[FnKey(callee)]; ok {
				t.contractEffects(callPlan{fc: fc, callee: callee, sig: callee.Signature}, e)
				continue
			}
			if obj, ok := callee.Object().(*types.Func); ok && effectfulLib[fullName(obj)] {
				e.alloc = true
				if !libWriteEffects(fullName(obj), c, e) {
					e.setAll("library function writing through its arguments: " + fullName(obj))
				}
				t.funcArgEffects(f, c, e, S)
				continue
			}
			// external library function without body: may modify anything but objects of repository-declared types;
			// functions passed as arguments are assumed to be called
			e.ext, e.alloc = true, true
			t.funcArgEffects(f, c, e, S)
			continue
		}
		if fc, ok := t.DB.Funcs[FnKey(callee)]; ok && (fc.HasMod || fc.Pure || fc.NoEffect) {
			pl := callPlan{fc: fc, callee: callee, sig: callee.Signature}
			if callee.Signature.Recv() != nil && len(callee.Params) > 0 {
				pl.recvName = callee.Params[0].Name()
			}
			t.contractEffects(pl, e)
			continue
		}
		if S != nil {
			if se := S.fn[callee]; se != nil {
				e.merge(se)
				t.funcArgEffects(f, c, e, S)
				continue
			}
		}
		e.setAll("callee without summary: " + callee.String())
		e.trace, e.alloc = true, true
	}
}

// libWriteEffects: library functions that write through their arguments, by argument type.
func libWriteEffects(name string, c *ssa.CallCommon, e *effects) bool {
	argType := func(i int) types.Type {
		if i >= len(c.Args) {
			return nil
		}
		a := c.Args[i]
		if mi, ok := a.(*ssa.MakeInterface); ok {
			return mi.X.Type()
		}
		if ct, ok := a.(*ssa.ChangeType); ok {
			return ct.X.Type()
		}
		return a.Type()
	}
	sliceElems := func(tp types.Type) bool {
		if tp == nil {
			return false
		}
		sl, ok := tp.Underlying().(*types.Slice)
		if !ok {
			return false
		}
		if _, isS := sl.Elem().Underlying().(*types.Struct); isS {
			addStructTargets(sl.Elem(), e)
			s := sl.Elem().Underlying().(*types.Struct)
			for i := 0; i < s.NumFields(); i++ {
				e.dirty[fieldArr(sl.Elem(), s.Field(i).Name())] = true
			}
			return true
		}
		e.arrs[elemArr(sl.Elem())] = arrDesc{'E', sl.Elem()}
		e.dirty[elemArr(sl.Elem())] = true
		return true
	}
	switch name {
	case "sort.Strings", "sort.Slice", "sort.SliceStable", "slices.Sort", "slices.SortFunc", "slices.SortStableFunc", "slices.Reverse":
		return sliceElems(argType(0))
	case "sort.Sort", "sort.Stable":
		return false
	case "encoding/json.Unmarshal", "google.golang.org/protobuf/proto.Unmarshal", "google.golang.org/protobuf/encoding/protojson.Unmarshal",
		"google.golang.org/protobuf/encoding/prototext.Unmarshal", "(*encoding/json.Decoder).Decode":
		// writes the object its last argument points to (and whatever hangs below it in external types)
		e.ext = true
		tp := argType(len(c.Args) - 1)
		if tp != nil {
			if p, ok := tp.Underlying().(*types.Pointer); ok {
				if _, isS := p.Elem().Underlying().(*types.Struct); isS {
					addStructTargets(p.Elem(), e)
					s := p.Elem().Underlying().(*types.Struct)
					for i := 0; i < s.NumFields(); i++ {
						e.dirty[fieldArr(p.Elem(), s.Field(i).Name())] = true
					}
				} else {
					e.arrs[cellArr(p.Elem())] = arrDesc{'M', p.Elem()}
					e.dirty[cellArr(p.Elem())] = true
				}
			}
		}
		return true
	}
	return false
}

// funcArgEffects adds the effects of function values passed to an external callee.
func (t *Trans) funcArgEffects(f *frame, c *ssa.CallCommon, e *effects, S *Summaries) {
	for _, a := range c.Args {
		var fn *ssa.Function
		for {
			ct, ok := a.(*ssa.ChangeType)
			if !ok {
				break
			}
			a = ct.X
		}
		if f != nil {
			if v, ok := f.vals[a]; ok && v.closureFn != nil {
				if se := S.fn[v.closureFn]; se != nil {
					e.merge(se)
					continue
				}
			}
		}
		switch x := a.(type) {
		case *ssa.MakeClosure:
			fn, _ = x.Fn.(*ssa.Function)
		case *ssa.Function:
			fn = x
		default:
			if _, isSig := a.Type().Underlying().(*types.Signature); isSig {
				if _, isParam := a.(*ssa.Parameter); isParam {
					continue // forwarded parameter: accounted for at our own call sites
				}
				if c, isConst := a.(*ssa.Const); isConst && c.Value == nil {
					continue // nil function
				}
				e.setAll("unknown function value passed to a callee")
			}
		}
		if fn != nil && S != nil {
			if se := S.fn[fn]; se != nil {
				e.merge(se)
			} else {
				e.setAll("function argument without summary")
			}
		}
	}
}

// ---------------------------------------------------------------------------
// loop effects

func (f *frame) loopEffects(li *loopInfo) *effects {
	e := newEffects()
	S := f.t.P.summaries(f.t.DB)
	for b := range li.body {
		for _, in := range b.Instrs {
			directEffects(in, e, f.localName, li.body)
			switch x := in.(type) {
			case *ssa.Defer:
				// pushing a deferred call has no effect by itself; a back edge after a pushed defer is an obligation (backEdge)
			case *ssa.Go:
			case ssa.CallInstruction:
				f.t.siteEffects(f, x.Common(), x, e, S)
			}
		}
	}
	return e
}

// ---------------------------------------------------------------------------
// closure values stored in struct fields: which function literals can a field hold?

type fieldKey struct {
	typ   string
	field string
}

// fieldClosureCandidates finds, by a small flow analysis over the whole program, the function values that are
// stored into the given struct field: directly (MakeClosure / function constant) or through parameters of
// functions whose call sites pass such values (depth-limited). ok=false if some stored value is of unknown origin.
func (P *Program) fieldClosureCandidates(T types.Type, field string) ([]*ssa.Function, bool) {
	if P.fieldCands == nil {
		P.fieldCands = map[fieldKey]*candSet{}
	}
	k := fieldKey{mangleType(T), field}
	if cs, ok := P.fieldCands[k]; ok {
		return cs.fns, cs.closed
	}
	cs := &candSet{closed: true}
	P.fieldCands[k] = cs
	seen := map[*ssa.Function]bool{}
	add := func(fn *ssa.Function) {
		if !seen[fn] {
			seen[fn] = true
			cs.fns = append(cs.fns, fn)
		}
	}
	var origin func(v ssa.Value, depth int)
	origin = func(v ssa.Value, depth int) {
		switch x := v.(type) {
		case *ssa.MakeClosure:
			if fn, ok := x.Fn.(*ssa.Function); ok {
				add(fn)
				return
			}
		case *ssa.Function:
			add(x)
			return
		case *ssa.Const:
			if x.Value == nil {
				return // nil function
			}
		case *ssa.ChangeType:
			origin(x.X, depth)
			return
		case *ssa.Parameter:
			if depth >= 3 {
				cs.closed = false
				return
			}
			g := x.Parent()
			idx := -1
			for i, p := range g.Params {
				if p == x {
					idx = i
				}
			}
			found := false
			for fn := range P.allFns() {
				for _, b := range fn.Blocks {
					for _, in := range b.Instrs {
						ci, ok := in.(ssa.CallInstruction)
						if !ok {
							continue
						}
						c := ci.Common()
						if c.StaticCallee() != g || c.IsInvoke() {
							continue
						}
						if idx < len(c.Args) {
							found = true
							origin(c.Args[idx], depth+1)
						}
					}
				}
			}
			if !found && g.Object() != nil && g.Object().Exported() {
				// exported function without a call site in the program: callers outside are not visible
			}
			return
		}
		cs.closed = false
	}
	for fn := range P.allFns() {
		for _, b := range fn.Blocks {
			for _, in := range b.Instrs {
				st, ok := in.(*ssa.Store)
				if !ok {
					continue
				}
				fa, ok := st.Addr.(*ssa.FieldAddr)
				if !ok {
					continue
				}
				_, ST, ok := isStructPtr(fa.X.Type())
				if !ok || mangleType(ST) != k.typ {
					continue
				}
				if ST.Underlying().(*types.Struct).Field(fa.Field).Name() != field {
					continue
				}
				origin(st.Val, 0)
			}
		}
	}
	return cs.fns, cs.closed
}

type candSet struct {
	fns    []*ssa.Function
	closed bool
}

func (P *Program) allFns() map[*ssa.Function]bool {
	if P.fnSet == nil {
		P.fnSet = map[*ssa.Function]bool{}
		for _, fn := range P.Funcs {
			P.fnSet[fn] = true
			for _, an := range fn.AnonFuncs {
				P.fnSet[an] = true
			}
		}
	}
	return P.fnSet
}
