package main

// Calls: contracts, library table, inlining, havoc.

import (
	"fmt"
	"go/token"
	"go/types"
	"os"
	"strings"

	"golang.org/x/tools/go/ssa"
)

type planKind int

const (
	planHavoc planKind = iota
	planNoop
	planNoEffect
	planPureUF
	planBuiltin
	planContract
	planInline
	planClosureSplit
)

type callPlan struct {
	kind      planKind
	fc        *FuncContract
	callee    *ssa.Function
	calleeObj *types.Func
	builtin   string
	name      string
	nonNil    bool // result (error/pointer) is non-nil
	bindings  []*Val
	sig       *types.Signature
	recvName  string
	cands     []*ssa.Function
	closed    bool
}

// packages whose functions are assumed to have no effect on modelled state (trusted).
var noEffectPkgs = map[string]bool{
	"github.com/sirupsen/logrus": true, "fmt": true, "strings": true, "strconv": true, "errors": true, "time": true, "math": true,
	"unicode/utf8": true, "unicode": true, "path": true, "context": true, "regexp": true, "sync": true, "sync/atomic": true,
	"google.golang.org/grpc/status": true, "google.golang.org/grpc/codes": true, "google.golang.org/grpc/peer": true, "bytes": true, "math/big": true,
	"os": true, "log": true, "slices": true, "maps": true, "cmp": true, "net": true, "encoding/base64": true, "encoding/hex": true,
	"google.golang.org/protobuf/proto": true, "google.golang.org/protobuf/encoding/prototext": true, "google.golang.org/protobuf/encoding/protojson": true,
	"github.com/AlekSi/pointer": true, "google.golang.org/protobuf/types/known/anypb": true, "math/rand": true, "reflect": true, "golang.org/x/sync/semaphore": true, "runtime": true, "encoding/json": true,
}

// functions in those packages that do write through their arguments (not effect free)
var effectfulLib = map[string]bool{
	"sort.Slice": true, "sort.Strings": true, "sort.Sort": true, "slices.Sort": true, "slices.SortFunc": true, "encoding/json.Unmarshal": true,
	"google.golang.org/protobuf/proto.Unmarshal": true, "(*encoding/json.Decoder).Decode": true, "slices.Reverse": true,
	"google.golang.org/protobuf/encoding/protojson.Unmarshal": true, "google.golang.org/protobuf/encoding/prototext.Unmarshal": true,
	"maps.Copy": true, "maps.DeleteFunc": true, "slices.SortStableFunc": true, "slices.DeleteFunc": true,
}

var nonNilResult = map[string]bool{
	"fmt.Errorf": true, "errors.New": true, "google.golang.org/grpc/status.Errorf": true, "google.golang.org/grpc/status.Error": true,
}

var noopFuncs = map[string]bool{
	"(*sync.Mutex).Lock": true, "(*sync.Mutex).Unlock": true, "(*sync.RWMutex).Lock": true, "(*sync.RWMutex).Unlock": true,
	"(*sync.RWMutex).RLock": true, "(*sync.RWMutex).RUnlock": true, "(*sync.WaitGroup).Add": true, "(*sync.WaitGroup).Done": true,
	"(*sync.WaitGroup).Wait": true, "(*golang.org/x/sync/semaphore.Weighted).Release": true,
}

func fullName(fn *types.Func) string { return fn.FullName() }

func (t *Trans) isNoopCall(c *ssa.CallCommon) bool {
	if fn := c.StaticCallee(); fn != nil && fn.Object() != nil {
		if f, ok := fn.Object().(*types.Func); ok {
			n := fullName(f)
			if noopFuncs[n] {
				return true
			}
			if f.Pkg() != nil && f.Pkg().Path() == "github.com/sirupsen/logrus" {
				return true
			}
		}
	}
	return false
}

func hasLoopOrUnsupported(fn *ssa.Function) bool {
	n := 0
	for _, b := range fn.Blocks {
		n += len(b.Instrs)
		for _, s := range b.Succs {
			if s.Dominates(b) {
				return true
			}
		}
		for _, in := range b.Instrs {
			switch in.(type) {
			case *ssa.Go, *ssa.Select:
				return true
			}
		}
	}
	return n > 400
}

func (t *Trans) planCall(f *frame, c *ssa.CallCommon) callPlan {
	if c.IsInvoke() {
		key := FuncObjKey(c.Method)
		p := callPlan{name: key, calleeObj: c.Method, sig: c.Method.Type().(*types.Signature), recvName: "self"}
		if fc, ok := t.DB.Funcs[key]; ok {
			p.kind, p.fc = planContract, fc
			return p
		}
		if key == "(error).Error" {
			p.kind = planPureUF
			return p
		}
		if c.Method.Pkg() != nil && noEffectPkgs[c.Method.Pkg().Path()] {
			p.kind = planNoEffect
			return p
		}
		p.kind = planHavoc
		return p
	}
	if bi, ok := c.Value.(*ssa.Builtin); ok {
		return callPlan{kind: planBuiltin, builtin: bi.Name(), name: bi.Name()}
	}
	fn := c.StaticCallee()
	var bindings []*Val
	if fn == nil && f != nil {
		// dynamic call through a function value
		if v, ok := f.vals[c.Value]; ok && v.closureFn != nil {
			fn = v.closureFn
			bindings = v.closureBind
		}
	} else if fn != nil && f != nil {
		if mc, ok := c.Value.(*ssa.MakeClosure); ok {
			if v, ok := f.vals[mc]; ok {
				bindings = v.closureBind
			}
		}
	}
	if fn == nil {
		// function value loaded from a struct field: closed set of candidate literals (flow analysis)
		if ld, ok := c.Value.(*ssa.UnOp); ok && ld.Op == token.MUL {
			if fa, ok := ld.X.(*ssa.FieldAddr); ok {
				if _, T, ok := isStructPtr(fa.X.Type()); ok {
					fld := T.Underlying().(*types.Struct).Field(fa.Field)
					cands, closed := t.P.fieldClosureCandidates(T, fld.Name())
					if len(cands) > 0 && len(cands) <= 6 {
						return callPlan{kind: planClosureSplit, name: "closure in field " + fld.Name(), cands: cands, closed: closed, sig: c.Signature()}
					}
				}
			}
		}
		return callPlan{kind: planHavoc, name: "dynamic call"}
	}
	key := FnKey(fn)
	p := callPlan{name: key, callee: fn, sig: fn.Signature, bindings: bindings}
	if fn.Signature.Recv() != nil && len(fn.Params) > 0 {
		p.recvName = fn.Params[0].Name()
	}
	if obj, ok := fn.Object().(*types.Func); ok {
		p.calleeObj = obj
		full := fullName(obj)
		if noopFuncs[full] {
			p.kind = planNoop
			return p
		}
		if fc, ok := t.DB.Funcs[key]; ok {
			p.kind, p.fc = planContract, fc
			return p
		}
		if fc, ok := t.DB.Funcs[full]; ok {
			p.kind, p.fc = planContract, fc
			return p
		}
		if obj.Pkg() != nil && noEffectPkgs[obj.Pkg().Path()] && !effectfulLib[full] {
			p.kind = planNoEffect
			p.nonNil = nonNilResult[full]
			if obj.Pkg().Path() == "github.com/sirupsen/logrus" {
				p.kind = planNoop
			}
			return p
		}
	} else if fc, ok := t.DB.Funcs[key]; ok {
		p.kind, p.fc = planContract, fc
		return p
	}
	if len(fn.Blocks) > 0 && !hasLoopOrUnsupported(fn) && fn != t.topFn() {
		p.kind = planInline
		return p
	}
	p.kind = planHavoc
	return p
}

func (t *Trans) topFn() *ssa.Function { return t.P.Funcs[t.topKey] }

var inlineStack []*ssa.Function

func (f *frame) call(res ssa.Value, c *ssa.CallCommon, st *State, cur string) (string, error) {
	before := cur
	out, err := f.call0(res, c, st, cur)
	if err == nil && f.top && res != nil {
		name := ""
		if c.IsInvoke() {
			name = c.Method.Name()
		} else if fn := c.StaticCallee(); fn != nil {
			name = fn.Name()
			if i := strings.Index(name, "["); i > 0 {
				name = name[:i]
			}
		}
		if name != "" {
			if f.callLog == nil {
				f.callLog = map[string][]callRec{}
			}
			rec := callRec{common: c, val: f.vals[res], cond: before}
			if c.IsInvoke() {
				rec.args = append(rec.args, f.valOf(c.Value))
				rec.argT = append(rec.argT, c.Value.Type())
			}
			for _, a := range c.Args {
				rec.args = append(rec.args, f.valOf(a))
				rec.argT = append(rec.argT, a.Type())
			}
			f.callLog[name] = append(f.callLog[name], rec)
			if f.fc != nil {
				_, n2 := callSiteNames(c)
				for ci, ce := range f.fc.CallEvents {
					if (ce.Name == name || ce.Name == n2) && ce.Arg < len(rec.args) && rec.args[ce.Arg] != nil && rec.args[ce.Arg].term != "" {
						B := f.t.B
						st.trace = B.define("trace", "(Array Int Event)", fmt.Sprintf("(store %s %s (ev_Called %d %s))", st.trace, st.ntrace, ci+1, rec.args[ce.Arg].term))
						st.ntrace = B.define("ntrace", "Int", fmt.Sprintf("(+ %s 1)", st.ntrace))
					}
				}
			}
			if os.Getenv("GVC_DEBUGCALLS") != "" {
				fmt.Fprintf(os.Stderr, "calllog %s #%d at %s (%s)\n", name, len(f.callLog[name])-1, f.t.P.Prog.Fset.Position(c.Pos()), f.vname(res))
			}
			// methods are also logged as ReceiverType_Method (disambiguates equal method names)
			if fn := c.StaticCallee(); fn != nil && fn.Signature.Recv() != nil {
				rt := fn.Signature.Recv().Type()
				if p, ok := rt.(*types.Pointer); ok {
					rt = p.Elem()
				}
				if n, ok := rt.(*types.Named); ok {
					k := n.Obj().Name() + "_" + name
					f.callLog[k] = append(f.callLog[k], rec)
				}
			}
		}
	}
	return out, err
}

func (f *frame) call0(res ssa.Value, c *ssa.CallCommon, st *State, cur string) (string, error) {
	t := f.t
	B := t.B
	plan := t.planCall(f, c)
	if c.IsInvoke() {
		// method call on a nil interface value panics
		iv := f.termOf(c.Value)
		f.safetyObl("nil", exprText(f, c.Value), cur, fmt.Sprintf("(not (= (i_tag %s) 0))", iv), c.Pos())
		cur = and(cur, fmt.Sprintf("(not (= (i_tag %s) 0))", iv))
	}
	// a method of a type declared outside the repository, called with a pointer receiver that may be nil: library
	// methods dereference their receiver (generated protobuf getters and a few others are nil-safe)
	if !c.IsInvoke() && t.fc != nil && (t.fc.Sweep || hasProp(t.fc.Props, "C20")) {
		// (only in the zero-annotation sweep: contracts of other functions state their own receiver assumptions)
		if callee := c.StaticCallee(); callee != nil && callee.Signature.Recv() != nil && len(c.Args) > 0 && !t.P.InRepo(callee) && !nilSafeLibMethod(callee) {
			if _, isP := callee.Signature.Recv().Type().Underlying().(*types.Pointer); isP {
				recvV := c.Args[0]
				// the address of a field (an embedded struct, a mutex) is nil only if the enclosing object is
				for {
					fa, ok := recvV.(*ssa.FieldAddr)
					if !ok {
						break
					}
					recvV = fa.X
				}
				rv := f.termOf(recvV)
				f.safetyObl("nil", exprText(f, c.Args[0])+"."+callee.Name(), cur, fmt.Sprintf("(not (= %s 0))", rv), c.Pos())
				cur = and(cur, fmt.Sprintf("(not (= %s 0))", rv))
			}
		}
	}
	setRes := func(v *Val) {
		if res != nil {
			f.vals[res] = v
		}
	}
	freshResults := func(sig *types.Signature, nonNil bool) *Val {
		rs := sig.Results()
		// the type of the call instruction is the instantiated one where the callee is generic (slices.DeleteFunc
		// returns S in its signature, []cachepb.Store at the call)
		resType := func(i int) types.Type {
			if res != nil {
				if tup, ok := res.Type().(*types.Tuple); ok {
					if tup.Len() == rs.Len() {
						return tup.At(i).Type()
					}
				} else if rs.Len() == 1 {
					return res.Type()
				}
			}
			return rs.At(i).Type()
		}
		if os.Getenv("GVC_DEBUG_RES") != "" && res != nil {
			fmt.Fprintf(os.Stderr, "freshResults in %s: res=%s type=%s (%T) sig=%s\n", f.fn.String(), res.Name(), res.Type(), res.Type(), sig)
		}
		var vals []*Val
		for i := 0; i < rs.Len(); i++ {
			name := fmt.Sprintf("f%d.call%d.r%d", f.id, B.n, i)
			if res != nil {
				name = fmt.Sprintf("%s.r%d", f.vname(res), i)
			}
			c := B.declConst(B.fresh(name), B.sortOf(resType(i)))
			cur = and(cur, t.typeFacts(st, c, resType(i)))
			if nonNil {
				switch resType(i).Underlying().(type) {
				case *types.Interface:
					cur = and(cur, fmt.Sprintf("(not (= (i_tag %s) 0))", c))
				case *types.Pointer:
					cur = and(cur, fmt.Sprintf("(not (= %s 0))", c))
				}
			}
			vals = append(vals, &Val{term: c})
		}
		switch len(vals) {
		case 0:
			return &Val{term: "0"}
		case 1:
			return vals[0]
		}
		return &Val{tuple: vals}
	}
	bumpAlloc := func() {
		old := st.alloc
		st.alloc = B.declConst(B.fresh("alloc"), "Int")
		cur = and(cur, fmt.Sprintf("(>= %s %s)", st.alloc, old))
	}
	switch plan.kind {
	case planNoop:
		setRes(&Val{term: "0"})
		if res != nil && plan.sig != nil && plan.sig.Results().Len() > 0 {
			setRes(freshResults(plan.sig, false))
		}
		return cur, nil
	case planNoEffect:
		t.trust("library function assumed effect-free: " + plan.name)
		bumpAlloc()
		setRes(freshResults(plan.sig, plan.nonNil))
		return cur, nil
	case planPureUF:
		var args, sorts []string
		for _, a := range c.Args {
			args = append(args, f.termOf(a))
			sorts = append(sorts, B.sortOf(a.Type()))
		}
		if c.IsInvoke() {
			args = append([]string{f.termOf(c.Value)}, args...)
			sorts = append([]string{"Iface"}, sorts...)
		}
		rs := plan.sig.Results()
		if plan.name == "(error).Error" {
			setRes(&Val{term: fmt.Sprintf("(err_msg %s)", args[0])})
			return cur, nil
		}
		if rs.Len() == 1 {
			fn := B.declFun("uf:"+plan.name, sorts, B.sortOf(rs.At(0).Type()))
			term := "(" + fn + " " + strings.Join(args, " ") + ")"
			if len(args) == 0 {
				term = fn
			}
			setRes(&Val{term: term})
			return cur, nil
		}
		setRes(freshResults(plan.sig, false))
		return cur, nil
	case planBuiltin:
		return f.builtin(res, plan.builtin, c, st, cur)
	case planContract:
		return f.contractCall(res, plan, c, st, cur)
	case planClosureSplit:
		return f.closureSplit(res, plan, c, st, cur)
	case planInline:
		// recursion guard
		for _, s := range inlineStack {
			if s == plan.callee {
				plan.kind = planHavoc
			}
		}
		if f.depth >= 5 {
			plan.kind = planHavoc
		}
		if plan.kind == planInline {
			return f.inline(res, plan, c, st, cur)
		}
	}
	// callee without contract that cannot be inlined: havoc what it may modify (inferred summary over the CHA call graph)
	var ci ssa.CallInstruction
	if cv, ok := res.(*ssa.Call); ok {
		ci = cv
	} else if f.site != nil {
		ci = f.site
	}
	eff := newEffects()
	t.siteEffects(f, c, ci, eff, t.P.summaries(t.DB))
	sig := plan.sig
	if sig == nil {
		sig = c.Signature()
	}
	cur = f.applyEffects(eff, st, cur, plan.name)
	setRes(freshResults(sig, false))
	return cur, nil
}

// closureSplit: call of a function value whose possible targets are known: one branch per candidate literal.
func (f *frame) closureSplit(res ssa.Value, plan callPlan, c *ssa.CallCommon, st *State, cur string) (string, error) {
	t := f.t
	B := t.B
	v := f.termOf(c.Value)
	f.safetyObl("nil", exprText(f, c.Value)+"()", cur, fmt.Sprintf("(not (= %s 0))", v), c.Pos())
	cur = and(cur, fmt.Sprintf("(not (= %s 0))", v))
	cf := B.declFun("closure_fn", []string{"Int"}, "Int")
	var es []edge
	var resTerms []string
	var none []string
	for _, fn := range plan.cands {
		is := fmt.Sprintf("(= (%s %s) %s)", cf, v, t.closureID(fn))
		none = append(none, not(is))
		stB := st.clone()
		curB := B.define("closurecase", "Bool", and(cur, is))
		p2 := callPlan{kind: planInline, name: FnKey(fn), callee: fn, sig: fn.Signature}
		for i, fv := range fn.FreeVars {
			bf := B.declFun(fmt.Sprintf("closure_bind:%s:%d", FnKey(fn), i), []string{"Int"}, "Int")
			term := fmt.Sprintf("(%s %s)", bf, v)
			bv := &Val{term: term}
			if pt, ok := fv.Type().Underlying().(*types.Pointer); ok {
				if _, isS := pt.Elem().Underlying().(*types.Struct); !isS {
					bv = &Val{term: term, lv: &LVal{kind: lvCell, arr: cellArr(pt.Elem()), obj: term, typ: pt.Elem()}}
				}
			}
			p2.bindings = append(p2.bindings, bv)
		}
		var out string
		var err error
		if len(fn.Blocks) > 0 && !hasLoopOrUnsupported(fn) && f.depth < 5 {
			out, err = f.inline(res, p2, c, stB, curB)
			if err != nil {
				return cur, err
			}
		} else {
			eff := newEffects()
			if se := t.P.summaries(t.DB).fn[fn]; se != nil {
				eff.merge(se)
			} else {
				eff.setAll("closure without summary")
			}
			out = f.applyEffects(eff, stB, curB, FnKey(fn))
			if res != nil {
				out = f.havocVal(res, stB, out)
			}
		}
		es = append(es, edge{cond: B.define("closureret", "Bool", out), st: stB})
		if res != nil {
			resTerms = append(resTerms, f.termOf(res))
		}
	}
	// any other target
	other := and(cur, and(none...))
	if plan.closed {
		t.trust("function values stored in a struct field are those assigned to it in the loaded program (closed world): " + plan.name)
	} else {
		stO := st.clone()
		curO := t.havocAll(stO, B.define("closureother", "Bool", other), false)
		if res != nil {
			curO = f.havocVal(res, stO, curO)
			resTerms = append(resTerms, f.termOf(res))
		}
		es = append(es, edge{cond: B.define("closureret", "Bool", curO), st: stO})
	}
	cond, merged := f.mergeEdges(es)
	merged.defers, merged.visited = st.defers, st.visited
	*st = *merged
	if res != nil && len(resTerms) > 0 {
		if _, isTuple := res.Type().(*types.Tuple); !isTuple {
			outT := resTerms[len(resTerms)-1]
			for i := len(resTerms) - 2; i >= 0; i-- {
				outT = ite(es[i].cond, resTerms[i], outT)
			}
			f.vals[res] = &Val{term: B.define(f.vname(res), B.sortOf(res.Type()), outT)}
		}
	}
	return cond, nil
}

// applyEffects havocs what an effect summary says may change.
func (f *frame) applyEffects(eff *effects, st *State, cur string, name string) string {
	t := f.t
	B := t.B
	if eff.all {
		t.trust("callee without contract, whole heap havocked: " + name + " (" + eff.why + ")")
		B.note("whole-heap havoc at call of %s in %s: %s", name, f.fn.Name(), eff.why)
		return t.havocAll(st, cur, !eff.trace)
	}
	t.trust("callee without contract, inferred modifies set havocked: " + name)
	if eff.ext {
		t.trust("external library callees are assumed not to modify objects of types declared in this repository")
		cur = t.havocHeap(st, cur, !eff.trace, true)
	}
	old := st.alloc
	st.alloc = B.declConst(B.fresh("alloc"), "Int")
	cur = and(cur, fmt.Sprintf("(>= %s %s)", st.alloc, old))
	for _, an := range sortedKeys(eff.arrs) {
		if strings.HasPrefix(an, "L:") {
			continue
		}
		sortA := t.descSort(eff.arrs[an])
		if _, ok := t.arrSort[an]; !ok {
			t.arrSort[an] = sortA
		}
		st.heap[an] = B.declConst(B.fresh(an), sortA)
		t.noteVersion(st.heap[an], st.alloc)
	}
	if eff.trace && !eff.ext {
		oldN, oldT := st.ntrace, st.trace
		st.trace = B.declConst(B.fresh("trace"), "(Array Int Event)")
		st.ntrace = B.declConst(B.fresh("ntrace"), "Int")
		cur = and(cur, fmt.Sprintf("(>= %s %s)", st.ntrace, oldN),
			fmt.Sprintf("(forall ((?i Int)) (! (=> (and (<= 0 ?i) (< ?i %s)) (= (select %s ?i) (select %s ?i))) :pattern ((select %s ?i)) :qid e18_calls_500))", oldN, st.trace, oldT, st.trace))
	}
	return cur
}

func (f *frame) argVals(c *ssa.CallCommon) []*Val {
	var out []*Val
	if c.IsInvoke() {
		out = append(out, f.valOf(c.Value))
	}
	for _, a := range c.Args {
		out = append(out, f.valOf(a))
	}
	return out
}

func (f *frame) inline(res ssa.Value, plan callPlan, c *ssa.CallCommon, st *State, cur string) (string, error) {
	t := f.t
	B := t.B
	sub := t.newFrame(plan.callee, false, f.depth+1)
	sub.prefix = f.prefix + plan.callee.Name() + ":"
	sub.silent = f.silent
	args := f.argVals(c)
	// free variables
	for i, fv := range plan.callee.FreeVars {
		if i < len(plan.bindings) {
			sub.vals[fv] = plan.bindings[i]
		}
	}
	inlineStack = append(inlineStack, plan.callee)
	err := sub.run(args, st.clone(), cur)
	inlineStack = inlineStack[:len(inlineStack)-1]
	if err != nil {
		// fall back to havoc
		B.note("inlining %s failed (%v): havoc", plan.name, err)
		t.trust("callee without contract, heap havocked: " + plan.name)
		cur = t.havocAll(st, cur, false)
		if res != nil {
			cur = f.havocVal(res, st, cur)
			if tup, ok := res.Type().(*types.Tuple); ok {
				var vals []*Val
				for i := 0; i < tup.Len(); i++ {
					cc := B.declConst(B.fresh(f.vname(res)+".r"), B.sortOf(tup.At(i).Type()))
					vals = append(vals, &Val{term: cc})
				}
				f.vals[res] = &Val{tuple: vals}
			}
		}
		return cur, nil
	}
	if len(sub.rets) == 0 {
		// callee never returns (panics)
		return "false", nil
	}
	var es []edge
	for _, r := range sub.rets {
		es = append(es, edge{cond: B.define("ret", "Bool", r.cond), st: r.st})
	}
	cond, merged := f.mergeEdges(es)
	// drop the callee's private locals
	for k := range merged.heap {
		if strings.HasPrefix(k, fmt.Sprintf("L:f%d.", sub.id)) {
			delete(merged.heap, k)
		}
	}
	// keep caller's defers / visited
	merged.defers = st.defers
	merged.visited = st.visited
	*st = *merged
	if res != nil {
		nres := plan.callee.Signature.Results().Len()
		mk := func(i int) *Val {
			tp := plan.callee.Signature.Results().At(i).Type()
			// closures / lvalues survive only when there is a single return
			if len(sub.rets) == 1 {
				return sub.rets[0].vals[i]
			}
			out := sub.rets[len(sub.rets)-1].vals[i].term
			for j := len(sub.rets) - 2; j >= 0; j-- {
				out = ite(es[j].cond, sub.rets[j].vals[i].term, out)
			}
			return &Val{term: B.define(fmt.Sprintf("%s.r%d", f.vname(res), i), B.sortOf(tp), out)}
		}
		switch nres {
		case 0:
			f.vals[res] = &Val{term: "0"}
		case 1:
			f.vals[res] = mk(0)
		default:
			var vals []*Val
			for i := 0; i < nres; i++ {
				vals = append(vals, mk(i))
			}
			f.vals[res] = &Val{tuple: vals}
		}
	}
	return cond, nil
}

// contractEnv binds the callee's parameter names to argument values.
func (f *frame) contractEnv(plan callPlan, args []*Val, st *State) (*exprEnv, error) {
	env := f.baseEnvNoParams(st)
	fc := plan.fc
	if pk := f.t.P.ByPath[fc.PkgPath]; pk != nil {
		env.pkg = pk.Types
	}
	sig := plan.sig
	var names []string
	var typs []types.Type
	if sig.Recv() != nil {
		rn := plan.recvName
		if plan.callee != nil && len(plan.callee.Params) > 0 {
			rn = plan.callee.Params[0].Name()
		}
		names = append(names, rn)
		typs = append(typs, sig.Recv().Type())
	}
	for i := 0; i < sig.Params().Len(); i++ {
		n := sig.Params().At(i).Name()
		if n == "" || n == "_" {
			n = fmt.Sprintf("a%d", i)
		}
		names = append(names, n)
		typs = append(typs, sig.Params().At(i).Type())
	}
	if len(fc.Params) > 0 {
		off := 0
		if sig.Recv() != nil {
			off = 1
		}
		for i, n := range fc.Params {
			if off+i < len(names) {
				names[off+i] = n
			}
		}
	}
	if len(args) != len(names) {
		return nil, fmt.Errorf("contract %s: %d args for %d params", fc.Key, len(args), len(names))
	}
	for i, n := range names {
		term := args[i].term
		if term == "" && args[i].lv != nil && args[i].lv.kind == lvCell {
			term = args[i].lv.obj
		}
		if term == "" {
			term = f.t.B.declConst(f.t.B.fresh("opaquearg"), f.t.B.sortOf(typs[i]))
		}
		env.vars[n] = cval{term: term, typ: typs[i]}
		if i == 0 && sig.Recv() != nil {
			env.vars["self"] = env.vars[n]
		}
	}
	return env, nil
}

func (f *frame) contractCall(res ssa.Value, plan callPlan, c *ssa.CallCommon, st *State, cur string) (string, error) {
	t := f.t
	B := t.B
	fc := plan.fc
	args := f.argVals(c)
	if fc.Kind != "func" || fc.Trusted != "" {
		t.trust(fmt.Sprintf("assumed contract (%s) on %s", fc.Kind, fc.Key))
	}
	pos := token.NoPos
	if res != nil {
		pos = res.Pos()
	}
	old := st.clone()
	envPre, err := f.contractEnv(plan, args, old)
	if err != nil {
		return cur, err
	}
	for _, l := range fc.Lets {
		v, err := envPre.compile(l[1])
		if err != nil {
			return cur, fmt.Errorf("%s: let %s: %v", fc.Where, l[0], err)
		}
		envPre.vars[l[0]] = v
	}
	for _, g := range fc.GhostMaps {
		envPre.vars[g] = cval{term: B.declConst(B.fresh("ghost."+g), "(Array Int Int)"), sort: "(Array Int Int)"}
	}
	for _, r := range fc.Requires {
		g, err := envPre.compileBool(r.Expr)
		if err != nil {
			return cur, fmt.Errorf("%s: requires %s of %s: %v", r.Where, r.Name, fc.Key, err)
		}
		short := fc.Key
		if i := strings.LastIndex(short, "."); i >= 0 {
			short = short[i+1:]
		}
		f.addObl("requires", short+"."+r.Name, cur, g, r, pos, nil)
		cur = and(cur, g)
	}
	// effects
	if fc.Pure {
		// result is an uninterpreted function of the arguments
	} else if fc.NoEffect {
		oa := st.alloc
		st.alloc = B.declConst(B.fresh("alloc"), "Int")
		cur = and(cur, fmt.Sprintf("(>= %s %s)", st.alloc, oa))
	} else if !fc.HasMod && fc.Kind == "func" {
		// no modifies clause: the inferred effect summary of the body is havocked
		eff := newEffects()
		t.contractEffects(plan, eff)
		cur = f.applyEffects(eff, st, cur, fc.Key)
	} else {
		oa := st.alloc
		st.alloc = B.declConst(B.fresh("alloc"), "Int")
		cur = and(cur, fmt.Sprintf("(>= %s %s)", st.alloc, oa))
		for _, m := range fc.Modifies {
			if m == "trace" {
				oldN, oldT := st.ntrace, st.trace
				st.trace = B.declConst(B.fresh("trace"), "(Array Int Event)")
				st.ntrace = B.declConst(B.fresh("ntrace"), "Int")
				cur = and(cur, fmt.Sprintf("(>= %s %s)", st.ntrace, oldN),
					fmt.Sprintf("(forall ((?i Int)) (! (=> (and (<= 0 ?i) (< ?i %s)) (= (select %s ?i) (select %s ?i))) :pattern ((select %s ?i)) :qid e19_calls_716))", oldN, st.trace, oldT, st.trace))
				continue
			}
			if err := envPre.applyModifies(m, st); err != nil {
				return cur, fmt.Errorf("%s: modifies %s: %v", fc.Where, m, err)
			}
		}
	}
	// results
	rs := plan.sig.Results()
	var rvals []*Val
	if fc.Pure && rs.Len() == 1 {
		var as, sorts []string
		for i, a := range args {
			term := a.term
			if term == "" {
				term = f.termOfVal(a)
			}
			as = append(as, term)
			if plan.sig.Recv() != nil || c.IsInvoke() {
				if i == 0 {
					if c.IsInvoke() {
						sorts = append(sorts, "Iface")
					} else {
						sorts = append(sorts, B.sortOf(plan.sig.Recv().Type()))
					}
					continue
				}
				sorts = append(sorts, B.sortOf(plan.sig.Params().At(i-1).Type()))
			} else {
				sorts = append(sorts, B.sortOf(plan.sig.Params().At(i).Type()))
			}
		}
		fn := B.declFun("uf:"+fc.Key, sorts, B.sortOf(rs.At(0).Type()))
		term := fn
		if len(as) > 0 {
			term = "(" + fn + " " + strings.Join(as, " ") + ")"
		}
		rvals = append(rvals, &Val{term: term})
		cur = and(cur, t.typeFacts(st, term, rs.At(0).Type()))
	} else {
		for i := 0; i < rs.Len(); i++ {
			cn := B.declConst(B.fresh(fmt.Sprintf("f%d.%s.r%d", f.id, shortKey(fc.Key), i)), B.sortOf(rs.At(i).Type()))
			cur = and(cur, t.typeFacts(st, cn, rs.At(i).Type()))
			rvals = append(rvals, &Val{term: cn})
		}
	}
	// ensures
	envPost, _ := f.contractEnv(plan, args, st)
	envPost.old = old
	for k, v := range envPre.vars {
		if _, ok := envPost.vars[k]; !ok {
			envPost.vars[k] = v
		}
	}
	for i, rv := range rvals {
		envPost.vars[fmt.Sprintf("r%d", i)] = cval{term: rv.term, typ: rs.At(i).Type()}
		if n := rs.At(i).Name(); n != "" && n != "_" {
			if _, clash := envPost.vars[n]; !clash {
				envPost.vars[n] = cval{term: rv.term, typ: rs.At(i).Type()}
			}
		}
		if i == 0 {
			envPost.vars["result"] = cval{term: rv.term, typ: rs.At(i).Type()}
		}
	}
	// emits (arguments may mention the results: e.g. whether the call succeeded; the condition is evaluated in the pre-state)
	for _, em := range fc.Emits {
		ev, err := envPost.eventTerm(em.Event, em.Args)
		if err != nil {
			return cur, fmt.Errorf("%s: emits %s: %v", fc.Where, em.Event, err)
		}
		cond := "true"
		if em.Cond != "" {
			cond, err = envPost.with(old).compileBool(em.Cond)
			if err != nil {
				return cur, err
			}
		}
		nt := B.define("trace", "(Array Int Event)", ite(cond, fmt.Sprintf("(store %s %s %s)", st.trace, st.ntrace, ev), st.trace))
		nn := B.define("ntrace", "Int", ite(cond, fmt.Sprintf("(+ %s 1)", st.ntrace), st.ntrace))
		st.trace, st.ntrace = nt, nn
	}
	var only map[string]bool
	if t.fc != nil && t.fc.Uses != nil {
		only = t.fc.Uses[shortKey(fc.Key)]
	}
	for _, e := range fc.Ensures {
		if e.Local {
			continue
		}
		if only != nil && !only[e.Name] {
			continue // the caller's contract imports only some postconditions of this callee (keeps queries small)
		}
		g, err := envPost.compileBool(e.Expr)
		if err != nil {
			return cur, fmt.Errorf("%s: ensures %s of %s: %v", e.Where, e.Name, fc.Key, err)
		}
		cur = and(cur, g)
	}
	if res != nil {
		switch len(rvals) {
		case 0:
			f.vals[res] = &Val{term: "0"}
		case 1:
			f.vals[res] = rvals[0]
		default:
			f.vals[res] = &Val{tuple: rvals}
		}
	}
	return B.define(fmt.Sprintf("f%d.after", f.id), "Bool", cur), nil
}

func shortKey(k string) string {
	if i := strings.LastIndex(k, "."); i >= 0 {
		return k[i+1:]
	}
	return k
}

func (f *frame) termOfVal(v *Val) string {
	if v.term != "" {
		return v.term
	}
	if v.lv != nil && v.lv.kind == lvCell {
		return v.lv.obj
	}
	return f.t.B.declConst(f.t.B.fresh("opaque"), "Int")
}

// ---------------------------------------------------------------------------
// builtins

func (f *frame) builtin(res ssa.Value, name string, c *ssa.CallCommon, st *State, cur string) (string, error) {
	t := f.t
	B := t.B
	set := func(term string) {
		if res != nil {
			f.def(res, term)
		}
	}
	switch name {
	case "len", "cap":
		a := c.Args[0]
		v := f.termOf(a)
		switch u := a.Type().Underlying().(type) {
		case *types.Slice:
			if name == "len" {
				set(fmt.Sprintf("(s_len %s)", v))
			} else {
				set(fmt.Sprintf("(s_cap %s)", v))
			}
		case *types.Basic:
			set(fmt.Sprintf("(strlen %s)", v))
		case *types.Map:
			ks := B.sortOf(u.Key())
			ps := arrOf("(Array " + ks + " Bool)")
			fn := B.cardFn(ks)
			set(ite(fmt.Sprintf("(= %s 0)", v), "0", fmt.Sprintf("(%s (select %s %s))", fn, t.get(st, mapPArr(u), ps), v)))
		case *types.Array:
			set(fmt.Sprint(u.Len()))
		case *types.Pointer:
			if arr, ok := u.Elem().Underlying().(*types.Array); ok {
				set(fmt.Sprint(arr.Len()))
			} else {
				return f.havocVal(res, st, cur), nil
			}
		case *types.Chan:
			return f.havocVal(res, st, cur), nil
		default:
			return f.havocVal(res, st, cur), nil
		}
		return cur, nil
	case "append":
		return f.appendOp(res, c, st, cur)
	case "copy":
		sl, ok := c.Args[0].Type().Underlying().(*types.Slice)
		if ok {
			es := arrOf(arrOf(B.sortOf(sl.Elem())))
			name := elemArr(sl.Elem())
			dst := f.termOf(c.Args[0])
			// havoc the destination's backing array
			old := t.get(st, name, es)
			nb := B.declConst(B.fresh("copied"), arrOf(B.sortOf(sl.Elem())))
			t.set(st, name, es, fmt.Sprintf("(store %s (s_base %s) %s)", old, dst, nb))
		}
		if res != nil {
			return f.havocVal(res, st, cur), nil
		}
		return cur, nil
	case "delete":
		mt, ok := c.Args[0].Type().Underlying().(*types.Map)
		if !ok {
			return cur, nil
		}
		m, k := f.termOf(c.Args[0]), f.termOf(c.Args[1])
		ks := B.sortOf(mt.Key())
		ps := arrOf("(Array " + ks + " Bool)")
		pa := t.get(st, mapPArr(mt), ps)
		t.set(st, mapPArr(mt), ps, ite(fmt.Sprintf("(= %s 0)", m), pa, fmt.Sprintf("(store %s %s (store (select %s %s) %s false))", pa, m, pa, m, k)))
		return cur, nil
	case "close":
		return cur, nil
	case "print", "println":
		return cur, nil
	case "min", "max":
		if res != nil && B.sortOf(res.Type()) == "Int" && len(c.Args) == 2 {
			a, b := f.termOf(c.Args[0]), f.termOf(c.Args[1])
			if name == "min" {
				set(fmt.Sprintf("(ite (<= %s %s) %s %s)", a, b, a, b))
			} else {
				set(fmt.Sprintf("(ite (>= %s %s) %s %s)", a, b, a, b))
			}
			return cur, nil
		}
	case "recover":
		set("nil_iface")
		return cur, nil
	case "ssa:wrapnilchk":
		if res != nil {
			f.vals[res] = f.valOf(c.Args[0])
		}
		return cur, nil
	}
	B.note("builtin %s not modelled", name)
	if res != nil {
		return f.havocVal(res, st, cur), nil
	}
	return cur, nil
}

// appendOp models append(s, xs...): either in place (shared backing array) or into a fresh array.
func (f *frame) appendOp(res ssa.Value, c *ssa.CallCommon, st *State, cur string) (string, error) {
	t := f.t
	B := t.B
	sl := c.Args[0].Type().Underlying().(*types.Slice)
	el := sl.Elem()
	es := arrOf(arrOf(B.sortOf(el)))
	name := elemArr(el)
	s := f.termOf(c.Args[0])
	if len(c.Args) < 2 {
		f.vals[res] = &Val{term: s}
		return cur, nil
	}
	if _, isStr := c.Args[1].Type().Underlying().(*types.Basic); isStr {
		// append([]byte, string...)
		return f.havocVal(res, st, cur), nil
	}
	x := f.termOf(c.Args[1])
	old := t.get(st, name, es)
	n := fmt.Sprintf("(s_len %s)", x)
	newLen := B.define("applen", "Int", fmt.Sprintf("(+ (s_len %s) %s)", s, n))
	// nondeterministic choice: in place iff capacity suffices AND the runtime chooses so; Go guarantees in place when cap suffices.
	inPlace := B.define("inplace", "Bool", fmt.Sprintf("(and (not (= (s_base %s) 0)) (<= %s (s_cap %s)))", s, newLen, s))
	freshBase := f.allocRef(st, "appbase")
	newCap := B.declConst(B.fresh("appcap"), "Int")
	r := B.define(f.vname(res), "Slice", ite(inPlace,
		fmt.Sprintf("(mk_slice (s_base %s) (s_off %s) %s (s_cap %s))", s, s, newLen, s),
		fmt.Sprintf("(mk_slice %s 0 %s %s)", freshBase, newLen, newCap)))
	cur = and(cur, fmt.Sprintf("(>= %s %s)", newCap, newLen))
	// new element heap: only the backing array of the result changes; its content is constrained pointwise
	rb, ro := fmt.Sprintf("(s_base %s)", r), fmt.Sprintf("(s_off %s)", r)
	inner := B.declConst(B.fresh(name+".app"), arrOf(B.sortOf(el)))
	na := B.define(name, es, fmt.Sprintf("(store %s %s %s)", old, rb, inner))
	t.arrSort[name] = es
	st.heap[name] = na
	t.noteVersion(na, st.alloc)
	// prefix preserved (both cases), appended elements, in-place: everything outside the appended window unchanged
	cur = and(cur, fmt.Sprintf("(forall ((?i Int)) (! (=> (and (<= 0 ?i) (< ?i (s_len %s))) (= (select %s (+ %s ?i)) (select (select %s (s_base %s)) (+ (s_off %s) ?i)))) :pattern ((select %s (+ %s ?i))) :pattern ((select (select %s (s_base %s)) (+ (s_off %s) ?i))) :qid e20_calls_984))", s, inner, ro, old, s, s, inner, ro, old, s, s))
	cur = and(cur, fmt.Sprintf("(forall ((?i Int)) (! (=> (and (<= 0 ?i) (< ?i %s)) (= (select %s (+ %s (s_len %s) ?i)) (select (select %s (s_base %s)) (+ (s_off %s) ?i)))) :pattern ((select (select %s (s_base %s)) (+ (s_off %s) ?i))) :qid e21_calls_985))", n, inner, ro, s, old, x, x, old, x, x))
	// append(s, a, b, ...): the variadic slice has a literal length, state its elements one by one (no trigger needed)
	if sv, ok := c.Args[1].(*ssa.Slice); ok && sv.Low == nil && sv.High == nil {
		if al, ok := sv.X.(*ssa.Alloc); ok {
			if arr, ok := al.Type().Underlying().(*types.Pointer).Elem().Underlying().(*types.Array); ok && arr.Len() <= 8 {
				for i := int64(0); i < arr.Len(); i++ {
					cur = and(cur, fmt.Sprintf("(= (select %s (+ %s (s_len %s) %d)) (select (select %s (s_base %s)) (+ (s_off %s) %d)))", inner, ro, s, i, old, x, x, i))
				}
			}
		}
	}
	cur = and(cur, fmt.Sprintf("(=> %s (forall ((?j Int)) (! (=> (or (< ?j (+ (s_off %s) (s_len %s))) (>= ?j (+ (s_off %s) %s))) (= (select %s ?j) (select (select %s %s) ?j))) :pattern ((select %s ?j)) :qid e22_calls_996)))", inPlace, s, s, s, newLen, inner, old, rb, inner))
	f.vals[res] = &Val{term: r}
	return cur, nil
}

// nilSafeLibMethod: library methods that may be called on a nil pointer receiver.
func nilSafeLibMethod(fn *ssa.Function) bool {
	name := fn.Name()
	pkg := ""
	if fn.Pkg != nil {
		pkg = fn.Pkg.Pkg.Path()
	}
	if strings.Contains(pkg, "sdc-protos") || strings.Contains(pkg, "openconfig/gnmi") || strings.HasPrefix(pkg, "google.golang.org/protobuf") {
		// generated code: getters, String, Reset, ProtoReflect handle nil receivers
		return strings.HasPrefix(name, "Get") || name == "String" || name == "ProtoReflect" || name == "Reset"
	}
	return false
}
