package main

// Top-level: one function + its contract -> obligations.

import (
	"fmt"
	"go/token"
	"go/types"
	"sort"
	"strings"

	"golang.org/x/tools/go/ssa"
)

type FnResult struct {
	Key        string
	Obls       []*Obligation
	Notes      []string
	Trusted    []string
	Err        error
	Abstracted bool
	NumBlocks  int
}

func clauseProps(fc *FuncContract, c *Clause) []string {
	if c != nil && len(c.Props) > 0 {
		return c.Props
	}
	return fc.Props
}

// VerifyFunc generates all obligations for the function with the given contract.
func VerifyFunc(P *Program, DB *ContractDB, fc *FuncContract, safety bool) *FnResult {
	return VerifyFuncX(P, DB, fc, safety, nil)
}

// VerifyFuncX additionally takes the excusing conditions of known findings (obligation base name -> expression).
func VerifyFuncX(P *Program, DB *ContractDB, fc *FuncContract, safety bool, excuses map[string]string) *FnResult {
	res := &FnResult{Key: fc.Key}
	fn := P.Funcs[fc.Key]
	if fn == nil {
		res.Err = fmt.Errorf("function %s (contract at %s) not found in the program", fc.Key, fc.Where)
		return res
	}
	res.NumBlocks = len(fn.Blocks)
	if len(fn.Blocks) > 400 {
		res.Err = fmt.Errorf("function %s exceeds the block cap (%d blocks)", fc.Key, len(fn.Blocks))
		return res
	}
	B := NewBuilder(DB.Events)
	t := &Trans{P: P, DB: DB, B: B, arrSort: map[string]string{}, ordCnt: map[string]int{}, topKey: fc.Key, fc: fc, safety: safety, trusted: map[string]bool{}}
	if fc.NoSafety != "" {
		t.safety = false
		t.trust("no-panic obligations not generated for " + fc.Key + ": " + fc.NoSafety)
	}
	st := t.newState("0")
	t.entry = st.clone()
	f := t.newFrame(fn, true, 0)
	f.fc = fc
	// parameters
	var args []*Val
	var facts []string
	facts = append(facts, fmt.Sprintf("(>= %s 0)", st.alloc), fmt.Sprintf("(>= %s 0)", st.ntrace))
	for _, p := range fn.Params {
		c := B.declConst("p:"+p.Name(), B.sortOf(p.Type()))
		v := &Val{term: c}
		if pt, ok := p.Type().Underlying().(*types.Pointer); ok {
			if _, isS := pt.Elem().Underlying().(*types.Struct); !isS {
				if _, isA := pt.Elem().Underlying().(*types.Array); !isA {
					v = &Val{term: c, lv: &LVal{kind: lvCell, arr: cellArr(pt.Elem()), obj: c, typ: pt.Elem()}}
				}
			}
		}
		args = append(args, v)
		facts = append(facts, t.typeFacts(st, c, p.Type()))
	}
	for _, fv := range fn.FreeVars {
		c := B.declConst("fv:"+fv.Name(), "Int")
		v := &Val{term: c}
		if pt, ok := fv.Type().Underlying().(*types.Pointer); ok {
			if _, isS := pt.Elem().Underlying().(*types.Struct); !isS {
				v = &Val{term: c, lv: &LVal{kind: lvCell, arr: cellArr(pt.Elem()), obj: c, typ: pt.Elem()}}
			}
		}
		f.vals[fv] = v
		facts = append(facts, t.typeFacts(st, c, fv.Type()))
		if capturedByReference(fn, fv) {
			// the address of a variable of the enclosing function: never nil
			facts = append(facts, fmt.Sprintf("(not (= %s 0))", c))
		}
	}
	f.bindParams(args)
	f.entry = st.clone()
	cond := and(facts...)
	// axioms
	envAx := f.baseEnv(st)
	blob := contractText(DB, fc)
	for _, ax := range DB.Axioms {
		if !axiomRelevant(DB, ax, blob) {
			// a ground fact about library functions (no spec function in it) belongs to the functions of its own package
			own := fn.Pkg != nil && fn.Pkg.Pkg.Path() == DB.LemmaPkg[ax.Name]
			if !own || axiomMentionsSpec(DB, ax) {
				continue
			}
		}
		if pk := P.ByPath[DB.LemmaPkg[ax.Name]]; pk != nil {
			envAx.pkg = pk.Types
		}
		g, err := envAx.compileBool(ax.Expr)
		if err != nil {
			// axioms that do not type-check in this function's context are skipped
			continue
		}
		cond = and(cond, g)
	}
	// lets + requires
	envPre := f.baseEnv(st)
	lets := map[string]cval{}
	for _, l := range fc.Lets {
		v, err := envPre.compile(l[1])
		if err != nil {
			res.Err = fmt.Errorf("%s: let %s: %v", fc.Where, l[0], err)
			return res
		}
		envPre.vars[l[0]] = v
		lets[l[0]] = v
	}
	for _, r := range fc.Requires {
		g, err := envPre.compileBool(r.Expr)
		if err != nil {
			res.Err = fmt.Errorf("%s: requires %s: %v", r.Where, r.Name, err)
			return res
		}
		cond = and(cond, g)
	}
	if fc.Sweep && fn.Signature.Recv() != nil && len(fn.Params) > 0 {
		if _, isP := fn.Params[0].Type().Underlying().(*types.Pointer); isP {
			cond = and(cond, fmt.Sprintf("(not (= %s 0))", args[0].term))
		}
	}
	f.lets = lets
	pre := B.define("pre", "Bool", cond)
	f.preTerm = pre
	// vacuity guard: precondition must be satisfiable
	vo := f.addObl("vacuity", "requires-sat", pre, "false", nil, fn.Pos(), fc.Props)
	vo.Expect = "sat"
	if err := f.run(args, st, pre); err != nil {
		res.Err = err
		return res
	}
	if len(t.unsupported) > 0 {
		res.Err = fmt.Errorf("%s", strings.Join(t.unsupported, "; "))
		return res
	}
	// returns
	sig := fn.Signature
	var retReach []string
	for ri, r := range f.rets {
		_ = ri
		retReach = append(retReach, r.cond)
		env := f.baseEnv(r.st)
		for k, v := range lets {
			env.vars[k] = v
		}
		for i, rv := range r.vals {
			tp := sig.Results().At(i).Type()
			env.vars[fmt.Sprintf("r%d", i)] = cval{term: rv.term, typ: tp}
			if n := sig.Results().At(i).Name(); n != "" && n != "_" {
				env.vars[n] = cval{term: rv.term, typ: tp}
			}
			if i == 0 {
				env.vars["result"] = cval{term: rv.term, typ: tp}
			}
		}
		for _, e := range fc.Ensures {
			g, err := env.compileBool(e.Expr)
			if err != nil {
				res.Err = fmt.Errorf("%s: ensures %s: %v", e.Where, e.Name, err)
				return res
			}
			if ex, ok := excuses[fmt.Sprintf("%s#ensures:%s", fc.Key, e.Name)]; ok {
				rx, err := rewriteExpr(ex)
				if err != nil {
					res.Err = fmt.Errorf("known finding excuse for %s: %v", e.Name, err)
					return res
				}
				c, err := env.compileBool(rx)
				if err != nil {
					res.Err = fmt.Errorf("known finding excuse for %s: %v", e.Name, err)
					return res
				}
				co := f.addObl("canary", e.Name, and(r.cond, c), g, e, r.ret.Pos(), clauseProps(fc, e))
				co.Expect = "sat"
				g = or(c, g)
			}
			f.addObl("ensures", e.Name, r.cond, g, e, r.ret.Pos(), clauseProps(fc, e))
		}
		// declared trace effect: the trace at the return equals the entry trace extended by the `emits` clauses
		if len(fc.Emits) > 0 {
			envEntry := f.baseEnv(f.entry)
			for k, v := range lets {
				envEntry.vars[k] = v
			}
			expT, expN := f.entry.trace, f.entry.ntrace
			for _, em := range fc.Emits {
				ev, err := env.eventTerm(em.Event, em.Args)
				if err != nil {
					res.Err = fmt.Errorf("%s: emits %s: %v", fc.Where, em.Event, err)
					return res
				}
				c := "true"
				if em.Cond != "" {
					c, err = envEntry.compileBool(em.Cond)
					if err != nil {
						res.Err = fmt.Errorf("%s: emits %s: %v", fc.Where, em.Event, err)
						return res
					}
				}
				expT, expN = ite(c, fmt.Sprintf("(store %s %s %s)", expT, expN, ev), expT), ite(c, fmt.Sprintf("(+ %s 1)", expN), expN)
			}
			goal := []string{fmt.Sprintf("(= %s %s)", r.st.ntrace, expN)}
			for j := range fc.Emits {
				idx := fmt.Sprintf("(+ %s %d)", f.entry.ntrace, j)
				goal = append(goal, implies(fmt.Sprintf("(< %s %s)", idx, expN), fmt.Sprintf("(= (select %s %s) (select %s %s))", r.st.trace, idx, expT, idx)))
			}
			f.addObl("emits", "trace-effect", r.cond, and(goal...), nil, r.ret.Pos(), fc.Props)
		}
		// frame
		if fc.HasMod {
			if err := f.frameObligations(fc, envPre, r, st); err != nil {
				res.Err = err
				return res
			}
		}
	}
	if len(f.rets) > 0 {
		ro := f.addObl("vacuity", "return-reachable", or(retReach...), "false", nil, fn.Pos(), fc.Props)
		ro.Expect = "sat"
	}
	for _, o := range t.obls {
		if o.Props == nil {
			o.Props = fc.Props
		}
	}
	res.Obls = t.obls
	for n := range B.notes {
		res.Notes = append(res.Notes, n)
	}
	for _, li := range f.loops {
		kind := "for"
		if phi, _, _ := f.rangeIndexInfo(li); phi != nil {
			kind = "range (index)"
		} else if f.rangeMapInfo(li) != nil {
			kind = "range (map)"
		}
		res.Notes = append(res.Notes, fmt.Sprintf("loop %d: %s, %s", li.ordinal, kind, P.Prog.Fset.Position(blockPos(li.header))))
		if kind == "for" {
			if fc.Decreases[li.ordinal] != nil {
				res.Trusted = append(res.Trusted, fmt.Sprintf("termination proved with a variant: %s loop %d", fc.Key, li.ordinal))
			} else {
				res.Trusted = append(res.Trusted, fmt.Sprintf("termination not claimed (for loop without a variant): %s loop %d", fc.Key, li.ordinal))
			}
		}
	}
	sort.Strings(res.Notes)
	for n := range t.trusted {
		res.Trusted = append(res.Trusted, n)
	}
	sort.Strings(res.Trusted)
	return res
}

// frameObligations: every heap array changed at a return must be covered by the modifies clause.
func (f *frame) frameObligations(fc *FuncContract, envPre *exprEnv, r retInfo, entry *State) error {
	t := f.t
	B := t.B
	allowed := map[string][]string{} // array -> allowed object terms ("" = whole)
	traceOK := false
	for _, m := range fc.Modifies {
		if m == "trace" {
			traceOK = true
			continue
		}
		tg, err := envPre.resolveModifies(m)
		if err != nil {
			return fmt.Errorf("%s: modifies %s: %v", fc.Where, m, err)
		}
		for _, g := range tg {
			allowed[g.arr] = append(allowed[g.arr], g.obj)
		}
	}
	entryAlloc := f.entry.alloc
	names := sortedKeys(r.st.heap)
	sameBase := r.st.base == f.entry.base
	if !sameBase {
		// heap was havocked wholesale: every known array may have changed
		names = sortedKeys(t.arrSort)
	}
	for _, name := range names {
		if strings.HasPrefix(name, "L:") {
			continue
		}
		sortA := t.arrSort[name]
		if !strings.HasPrefix(sortA, "(Array Int ") {
			continue
		}
		cur := t.get(r.st, name, sortA)
		old := t.get(f.entry, name, sortA)
		if cur == old {
			continue
		}
		objs := allowed[name]
		whole := false
		for _, o := range objs {
			if o == "" {
				whole = true
			}
		}
		if whole {
			continue
		}
		p := B.declConst(B.fresh("frame_p"), "Int")
		var excl []string
		for _, o := range objs {
			excl = append(excl, fmt.Sprintf("(not (= %s %s))", p, o))
		}
		hyp := and(fmt.Sprintf("(<= %s %s)", p, entryAlloc), fmt.Sprintf("(<= 0 %s)", p), and(excl...))
		goal := implies(hyp, fmt.Sprintf("(= (select %s %s) (select %s %s))", cur, p, old, p))
		f.addObl("frame", name, r.cond, goal, nil, r.ret.Pos(), fc.Props)
	}
	if !traceOK && len(fc.Emits) == 0 && r.st.ntrace != f.entry.ntrace {
		f.addObl("frame", "trace", r.cond, fmt.Sprintf("(= %s %s)", r.st.ntrace, f.entry.ntrace), nil, r.ret.Pos(), fc.Props)
	}
	return nil
}

// VerifyLemma: a closed formula over spec functions / axioms.
func VerifyLemma(P *Program, DB *ContractDB, l *Clause) *FnResult {
	res := &FnResult{Key: "lemma." + l.Name}
	B := NewBuilder(DB.Events)
	// lemmas are evaluated in the context of an arbitrary function of the package (for name resolution only)
	var anyFn *ssa.Function
	pkgPath := DB.LemmaPkg[l.Name]
	for _, fn := range P.Funcs {
		if fn.Pkg != nil && fn.Pkg.Pkg.Path() == pkgPath && fn.Parent() == nil {
			if anyFn == nil || fn.Name() < anyFn.Name() {
				anyFn = fn
			}
		}
	}
	if anyFn == nil {
		res.Err = fmt.Errorf("lemma %s: no function in package %s", l.Name, pkgPath)
		return res
	}
	t := &Trans{P: P, DB: DB, B: B, arrSort: map[string]string{}, ordCnt: map[string]int{}, topKey: "lemma." + l.Name, trusted: map[string]bool{}}
	st := t.newState("0")
	t.entry = st.clone()
	f := t.newFrame(anyFn, true, 0)
	f.entry = st.clone()
	env := f.baseEnvNoParams(st)
	cond := "true"
	for _, ax := range DB.Axioms {
		g, err := env.compileBool(ax.Expr)
		if err == nil {
			cond = and(cond, g)
		}
	}
	g, err := env.compileBool(l.Expr)
	if err != nil {
		res.Err = fmt.Errorf("%s: lemma %s: %v", l.Where, l.Name, err)
		return res
	}
	o := f.addObl("lemma", l.Name, cond, g, l, token.NoPos, l.Props)
	o.Fn = "lemma"
	res.Obls = t.obls
	return res
}

// contractText collects the expression texts of a contract, with the bodies of the predicates it (transitively) uses.
func contractText(DB *ContractDB, fc *FuncContract) string {
	var sb strings.Builder
	add := func(cs []*Clause) {
		for _, c := range cs {
			sb.WriteString(c.Expr)
			sb.WriteByte(' ')
		}
	}
	add(fc.Requires)
	add(fc.Ensures)
	for _, cs := range fc.Invariants {
		add(cs)
	}
	for _, l := range fc.Lets {
		sb.WriteString(l[1])
		sb.WriteByte(' ')
	}
	text := sb.String()
	seen := map[string]bool{}
	for changed := true; changed; {
		changed = false
		for name, pd := range DB.Preds {
			if !seen[name] && strings.Contains(text, name+"(") {
				seen[name] = true
				text += " " + pd.Body
				changed = true
			}
		}
	}
	return text
}

// axiomRelevant: an axiom is included only where one of the spec functions it constrains is mentioned.
func axiomMentionsSpec(DB *ContractDB, ax *Clause) bool {
	for name := range DB.Specs {
		if strings.Contains(ax.Expr, name+"(") {
			return true
		}
	}
	return false
}

func axiomRelevant(DB *ContractDB, ax *Clause, blob string) bool {
	for name := range DB.Specs {
		if strings.Contains(ax.Expr, name+"(") && strings.Contains(blob, name+"(") {
			return true
		}
	}
	return false
}

// capturedByReference: the free variable is bound, at every closure creation in the parent, to a local variable's cell.
func capturedByReference(fn *ssa.Function, fv *ssa.FreeVar) bool {
	parent := fn.Parent()
	if parent == nil {
		return false
	}
	idx := -1
	for i, x := range fn.FreeVars {
		if x == fv {
			idx = i
		}
	}
	found := false
	for _, b := range parent.Blocks {
		for _, in := range b.Instrs {
			mc, ok := in.(*ssa.MakeClosure)
			if !ok || mc.Fn != fn || idx < 0 || idx >= len(mc.Bindings) {
				continue
			}
			if _, isAlloc := mc.Bindings[idx].(*ssa.Alloc); !isAlloc {
				return false
			}
			found = true
		}
	}
	return found
}
