package main

// Contract files: //@ comment lines in /repo/pkg/**/zz_verif_contracts.go (build tag verif).

import (
	"fmt"
	"os"
	"path/filepath"
	"regexp"
	"strconv"
	"strings"
)

type Clause struct {
	Kind  string // requires | ensures | invariant | lemma | axiom
	Name  string
	Props []string // clause-level property tags (empty = inherit)
	Expr  string   // rewritten expression text (Go syntax)
	Raw   string
	Loop  int
	Where string // file:line
	Local bool   // checked on the body, not exported to callers (may mention locals)
}

// CallEvent: see FuncContract.CallEvents
type CallEvent struct {
	Name string
	Arg  int
}

type Emit struct {
	Event string
	Args  []string // expression texts
	Cond  string   // optional
}

type FuncContract struct {
	Key         string // normalized function key
	Kind        string // func | iface | extern
	PkgPath     string // package of the contract file (for name resolution)
	Props       []string
	Requires    []*Clause
	Ensures     []*Clause
	Invariants  map[int][]*Clause
	Decreases   map[int]*Clause // loop ordinal -> variant: a term that is >= 0 whenever the loop repeats and gets smaller with every iteration
	Modifies    []string
	HasMod      bool
	Emits       []Emit
	Pure        bool // result is an uninterpreted function of the arguments, no effects
	NoEffect    bool // no heap/trace effects, result unconstrained apart from ensures
	Trusted     string
	Params      []string // optional explicit parameter names (extern/iface)
	Where       string
	Lets        [][2]string                // name, expr: ghost abbreviations usable in clauses (evaluated at entry)
	Sweep       bool                       // zero-annotation entry of a no-panic sweep: only the receiver is assumed non-nil
	CallEvents  []CallEvent                // calls of the named callees made by this function are recorded on the ghost trace: Called(id, argument)
	ChanEvents  bool                       // select statements record what they send and receive on the ghost trace (Send / Recv events)
	WakeEvents  bool                       // chanevents wakeups: a receive of a value without identity (struct{}, time.Time) or on a closed channel is recorded too, as Recv(channel, 0)
	NoAutoFrame bool                       // do not generate the automatic "objects that existed before the loop keep their content" loop invariants
	Expose      bool                       // element reads below existential quantifiers are also stated outside them (helps E-matching on goals)
	GhostMaps   []string                   // assumed contracts only: existentially chosen Int->Int maps, fresh at every call (e.g. the permutation of a sort)
	Uses        map[string]map[string]bool // callee short name -> the only postconditions of it that are assumed at its call sites here
	CutLoops    bool                       // after a loop only the precondition and the loop invariants are known (path history is dropped)
	NoSafety    string                     // reason: safety (no-panic) obligations are not generated for this function
}

type PredDef struct {
	Name   string
	Params []string
	Body   string
	Where  string
}

type SpecFun struct {
	Name string
	Args []string // SMT sorts
	Res  string
}

type ContractDB struct {
	Funcs    map[string]*FuncContract
	Preds    map[string]*PredDef
	Specs    map[string]*SpecFun
	Axioms   []*Clause
	Lemmas   []*Clause // with Props
	Events   *EventTable
	Files    []string
	LemmaPkg map[string]string
	sweeps   []sweepEntry
}

type sweepEntry struct {
	prop, key, pkg, where string
}

var clauseKW = map[string]bool{"props": true, "requires": true, "ensures": true, "modifies": true, "loop": true, "emits": true,
	"pure": true, "noeffect": true, "trusted": true, "params": true, "let": true, "ghostmap": true, "expose": true, "noautoframe": true, "chanevents": true, "callevents": true, "internal": true, "nosafety": true, "cutloops": true, "uses": true}

var topKW = map[string]bool{"sweep": true, "func": true, "iface": true, "extern": true, "pred": true, "spec": true, "axiom": true, "lemma": true, "event": true}

func pkgQualifier(path string) string {
	path = strings.TrimPrefix(path, "github.com/sdcio/data-server/pkg/")
	path = strings.TrimPrefix(path, "github.com/sdcio/")
	return path
}

// LoadContracts reads every zz_verif_contracts.go below root. dirToPkg maps a directory to its import path.
func LoadContracts(root string, dirToPkg map[string]string) (*ContractDB, error) {
	db := &ContractDB{Funcs: map[string]*FuncContract{}, Preds: map[string]*PredDef{}, Specs: map[string]*SpecFun{}, Events: NewEventTable(), LemmaPkg: map[string]string{}}
	var files []string
	filepath.Walk(root, func(p string, info os.FileInfo, err error) error {
		if err == nil && !info.IsDir() && strings.HasPrefix(info.Name(), "zz_verif_contracts") && strings.HasSuffix(info.Name(), ".go") {
			files = append(files, p)
		}
		return nil
	})
	for _, f := range files {
		pkg := dirToPkg[filepath.Dir(f)]
		if pkg == "" {
			return nil, fmt.Errorf("contract file %s: directory is not a loaded package", f)
		}
		if err := db.parseFile(f, pkg); err != nil {
			return nil, err
		}
		db.Files = append(db.Files, f)
	}
	for _, sw := range db.sweeps {
		if _, has := db.Funcs[sw.key]; has {
			continue // its safety obligations are generated under the properties of its own contract
		}
		db.Funcs[sw.key] = &FuncContract{Kind: "func", Key: sw.key, PkgPath: sw.pkg, Props: []string{sw.prop}, Invariants: map[int][]*Clause{}, Where: sw.where, Sweep: true}
	}
	return db, nil
}

type rawLine struct {
	text string
	line int
}

func (db *ContractDB) parseFile(file, pkgPath string) error {
	data, err := os.ReadFile(file)
	if err != nil {
		return err
	}
	var lines []rawLine
	for i, l := range strings.Split(string(data), "\n") {
		t := strings.TrimSpace(l)
		if strings.HasPrefix(t, "//@") {
			lines = append(lines, rawLine{strings.TrimRight(t[3:], " \t"), i + 1})
		}
	}
	// group into directives: a line whose first word is a top keyword starts a directive
	type directive struct {
		head    rawLine
		clauses []rawLine
	}
	var dirs []*directive
	var cur *directive
	for _, l := range lines {
		t := strings.TrimSpace(l.text)
		if t == "" {
			continue
		}
		w := firstWord(t)
		if topKW[w] && !strings.HasPrefix(l.text, "    ") {
			cur = &directive{head: rawLine{t, l.line}}
			dirs = append(dirs, cur)
			continue
		}
		if cur == nil {
			return fmt.Errorf("%s:%d: clause outside directive", file, l.line)
		}
		if clauseKW[w] {
			cur.clauses = append(cur.clauses, rawLine{t, l.line})
		} else if len(cur.clauses) > 0 {
			last := &cur.clauses[len(cur.clauses)-1]
			last.text += " " + t
		} else {
			cur.head.text += " " + t
		}
	}
	q := pkgQualifier(pkgPath)
	for _, d := range dirs {
		where := fmt.Sprintf("%s:%d", file, d.head.line)
		w := firstWord(d.head.text)
		rest := strings.TrimSpace(d.head.text[len(w):])
		switch w {
		case "event":
			// event Name(sort, sort)
			name, args, err := splitCallHead(rest)
			if err != nil {
				return fmt.Errorf("%s: %v", where, err)
			}
			var sorts []string
			for _, a := range args {
				sorts = append(sorts, sortName(a))
			}
			db.Events.Add(name, sorts)
		case "spec":
			// spec name(sort, sort) sort
			i := strings.LastIndex(rest, ")")
			if i < 0 {
				return fmt.Errorf("%s: bad spec", where)
			}
			name, args, err := splitCallHead(rest[:i+1])
			if err != nil {
				return fmt.Errorf("%s: %v", where, err)
			}
			sf := &SpecFun{Name: name, Res: sortName(strings.TrimSpace(rest[i+1:]))}
			for _, a := range args {
				sf.Args = append(sf.Args, sortName(a))
			}
			db.Specs[name] = sf
		case "pred":
			i := strings.Index(rest, "=")
			if i < 0 {
				return fmt.Errorf("%s: pred needs '='", where)
			}
			// find the '=' after the closing paren of the head
			cp := strings.Index(rest, ")")
			i = cp + 1 + strings.Index(rest[cp+1:], "=")
			name, args, err := splitCallHead(strings.TrimSpace(rest[:i]))
			if err != nil {
				return fmt.Errorf("%s: %v", where, err)
			}
			body, err := rewriteExpr(rest[i+1:])
			if err != nil {
				return fmt.Errorf("%s: %v", where, err)
			}
			db.Preds[name] = &PredDef{Name: name, Params: args, Body: body, Where: where}
		case "axiom", "lemma":
			i := strings.Index(rest, ":")
			if i < 0 {
				return fmt.Errorf("%s: %s needs 'name:'", where, w)
			}
			name, props := splitNameProps(rest[:i])
			ex, err := rewriteExpr(rest[i+1:])
			if err != nil {
				return fmt.Errorf("%s: %v", where, err)
			}
			c := &Clause{Kind: w, Name: name, Props: props, Expr: ex, Raw: strings.TrimSpace(rest[i+1:]), Where: where}
			if w == "axiom" {
				db.Axioms = append(db.Axioms, c)
			} else {
				db.Lemmas = append(db.Lemmas, c)
			}
			db.LemmaPkg[name] = pkgPath
		case "sweep":
			// sweep Cxx: fn fn fn ...   (safety obligations of functions without a contract of their own)
			i := strings.Index(rest, ":")
			if i < 0 {
				return fmt.Errorf("%s: sweep Cxx: names", where)
			}
			prop := strings.TrimSpace(rest[:i])
			for _, n := range strings.Fields(rest[i+1:]) {
				db.sweeps = append(db.sweeps, sweepEntry{prop: prop, key: qualifyKey(n, q), pkg: pkgPath, where: where})
			}
		case "func", "iface", "extern":
			fc := &FuncContract{Kind: w, PkgPath: pkgPath, Invariants: map[int][]*Clause{}, Where: where}
			key := rest
			switch w {
			case "func":
				key = qualifyKey(rest, q)
			case "iface":
				key = normalizeIfaceKey(rest, q)
			}
			fc.Key = key
			for _, cl := range d.clauses {
				cw := firstWord(cl.text)
				crest := strings.TrimSpace(cl.text[len(cw):])
				cwhere := fmt.Sprintf("%s:%d", file, cl.line)
				switch cw {
				case "props":
					fc.Props = strings.Fields(crest)
				case "cutloops":
					fc.CutLoops = true
				case "uses":
					// uses Callee: clause clause ...
					i := strings.Index(crest, ":")
					if i < 0 {
						return fmt.Errorf("%s: uses Callee: clause ...", cwhere)
					}
					if fc.Uses == nil {
						fc.Uses = map[string]map[string]bool{}
					}
					set := map[string]bool{}
					for _, c := range strings.Fields(strings.ReplaceAll(crest[i+1:], ",", " ")) {
						set[c] = true
					}
					fc.Uses[strings.TrimSpace(crest[:i])] = set
				case "nosafety":
					fc.NoSafety = crest
					if fc.NoSafety == "" {
						fc.NoSafety = "not claimed"
					}
				case "pure":
					fc.Pure = true
				case "noeffect":
					fc.NoEffect = true
				case "trusted":
					fc.Trusted = crest
					if fc.Trusted == "" {
						fc.Trusted = "assumed"
					}
				case "params":
					fc.Params = strings.Fields(strings.ReplaceAll(crest, ",", " "))
				case "expose":
					fc.Expose = true
				case "noautoframe":
					fc.NoAutoFrame = true
				case "chanevents":
					fc.ChanEvents = true
					fc.WakeEvents = strings.TrimSpace(crest) == "wakeups"
				case "callevents":
					// callevents Callee:argIndex ...   (argument 0 of a method call is the receiver)
					for _, w := range strings.Fields(crest) {
						i := strings.LastIndex(w, ":")
						if i < 0 {
							return fmt.Errorf("%s: callevents Callee:argIndex", cwhere)
						}
						ai, err := strconv.Atoi(w[i+1:])
						if err != nil {
							return fmt.Errorf("%s: callevents Callee:argIndex", cwhere)
						}
						fc.CallEvents = append(fc.CallEvents, CallEvent{Name: w[:i], Arg: ai})
					}
				case "ghostmap":
					if fc.Kind == "func" && fc.Trusted == "" {
						return fmt.Errorf("%s: ghostmap is only allowed in assumed contracts (extern, iface, trusted)", cwhere)
					}
					fc.GhostMaps = append(fc.GhostMaps, strings.Fields(crest)...)
				case "let":
					i := strings.Index(crest, "=")
					if i < 0 {
						return fmt.Errorf("%s: let needs '='", cwhere)
					}
					ex, err := rewriteExpr(crest[i+1:])
					if err != nil {
						return fmt.Errorf("%s: %v", cwhere, err)
					}
					fc.Lets = append(fc.Lets, [2]string{strings.TrimSpace(crest[:i]), ex})
				case "modifies":
					fc.HasMod = true
					if crest != "nothing" && crest != "" {
						for _, m := range strings.Split(crest, ",") {
							fc.Modifies = append(fc.Modifies, strings.TrimSpace(m))
						}
					}
				case "emits":
					em := Emit{}
					body := crest
					if i := strings.Index(body, " if "); i >= 0 {
						c, err := rewriteExpr(body[i+4:])
						if err != nil {
							return fmt.Errorf("%s: %v", cwhere, err)
						}
						em.Cond = c
						body = body[:i]
					}
					name, args, err := splitCallHead(strings.TrimSpace(body))
					if err != nil {
						return fmt.Errorf("%s: %v", cwhere, err)
					}
					em.Event = name
					for _, a := range args {
						ra, err := rewriteExpr(a)
						if err != nil {
							return fmt.Errorf("%s: %v", cwhere, err)
						}
						em.Args = append(em.Args, ra)
					}
					fc.Emits = append(fc.Emits, em)
				case "requires", "ensures", "internal":
					local := cw == "internal"
					if local {
						cw = "ensures"
					}
					name := ""
					var props []string
					body := crest
					if m := clauseHead.FindStringSubmatch(crest); m != nil {
						name, props = splitNameProps(m[1])
						body = crest[len(m[0]):]
					}
					ex, err := rewriteExpr(body)
					if err != nil {
						return fmt.Errorf("%s: %v", cwhere, err)
					}
					c := &Clause{Kind: cw, Name: name, Props: props, Expr: ex, Raw: strings.TrimSpace(body), Where: cwhere, Local: local}
					if cw == "requires" {
						if c.Name == "" {
							c.Name = fmt.Sprintf("pre%d", len(fc.Requires))
						}
						fc.Requires = append(fc.Requires, c)
					} else {
						if c.Name == "" {
							c.Name = fmt.Sprintf("post%d", len(fc.Ensures))
						}
						fc.Ensures = append(fc.Ensures, c)
					}
				case "loop":
					// loop N invariant [name:] expr
					fs := strings.Fields(crest)
					if len(fs) >= 3 && fs[1] == "decreases" {
						// loop N decreases expr   (termination: the loop repeats at most expr times)
						n, err := strconv.Atoi(fs[0])
						if err != nil {
							return fmt.Errorf("%s: bad loop ordinal", cwhere)
						}
						body := strings.TrimSpace(crest[strings.Index(crest, "decreases")+len("decreases"):])
						ex, err := rewriteExpr(body)
						if err != nil {
							return fmt.Errorf("%s: %v", cwhere, err)
						}
						if fc.Decreases == nil {
							fc.Decreases = map[int]*Clause{}
						}
						fc.Decreases[n] = &Clause{Kind: "decreases", Name: "decreases", Expr: ex, Raw: body, Loop: n, Where: cwhere}
						continue
					}
					if len(fs) < 3 || fs[1] != "invariant" {
						return fmt.Errorf("%s: expected 'loop N invariant expr' or 'loop N decreases expr'", cwhere)
					}
					n, err := strconv.Atoi(fs[0])
					if err != nil {
						return fmt.Errorf("%s: bad loop ordinal", cwhere)
					}
					body := strings.TrimSpace(crest[strings.Index(crest, "invariant")+len("invariant"):])
					name := ""
					var iprops []string
					if m := clauseHead.FindStringSubmatch(body); m != nil {
						name, iprops = splitNameProps(m[1])
						body = body[len(m[0]):]
					}
					ex, err := rewriteExpr(body)
					if err != nil {
						return fmt.Errorf("%s: %v", cwhere, err)
					}
					if name == "" {
						name = fmt.Sprintf("i%d", len(fc.Invariants[n]))
					}
					fc.Invariants[n] = append(fc.Invariants[n], &Clause{Kind: "invariant", Name: name, Props: iprops, Expr: ex, Raw: body, Loop: n, Where: cwhere})
				}
			}
			if old, dup := db.Funcs[fc.Key]; dup {
				return fmt.Errorf("%s: duplicate contract for %s (first at %s)", where, fc.Key, old.Where)
			}
			db.Funcs[fc.Key] = fc
		}
	}
	return nil
}

var clauseHead = regexp.MustCompile(`^([A-Za-z_][A-Za-z0-9_]*(?:\s*\[[A-Z0-9 ]+\])?)\s*:(?:[^=]|$)`)

func splitNameProps(s string) (string, []string) {
	s = strings.TrimSpace(s)
	if i := strings.Index(s, "["); i >= 0 {
		j := strings.Index(s, "]")
		if j > i {
			return strings.TrimSpace(s[:i]), strings.Fields(s[i+1 : j])
		}
	}
	return s, nil
}

func firstWord(s string) string {
	s = strings.TrimSpace(s)
	for i, r := range s {
		if r == ' ' || r == '\t' {
			return s[:i]
		}
	}
	return s
}

func sortName(s string) string {
	s = strings.TrimSpace(s)
	switch s {
	case "int", "Int", "Ref", "ref":
		return "Int"
	case "bool", "Bool":
		return "Bool"
	case "string", "Str":
		return "Str"
	case "Iface", "error", "any":
		return "Iface"
	case "Slice":
		return "Slice"
	case "Event":
		return "Event"
	case "Flt":
		return "Flt"
	}
	return s
}

// splitCallHead parses "Name(a, b, c)" -> Name, [a b c]
func splitCallHead(s string) (string, []string, error) {
	s = strings.TrimSpace(s)
	i := strings.Index(s, "(")
	if i < 0 {
		return s, nil, nil
	}
	if !strings.HasSuffix(s, ")") {
		return "", nil, fmt.Errorf("bad head %q", s)
	}
	name := strings.TrimSpace(s[:i])
	inner := s[i+1 : len(s)-1]
	var args []string
	for _, a := range splitTop(inner, ",") {
		a = strings.TrimSpace(a)
		if a != "" {
			args = append(args, a)
		}
	}
	return name, args, nil
}

// qualifyKey: "(*T).m" -> "(*q.T).m"; "f" -> "q.f"; "(T).m" -> "(q.T).m"
func qualifyKey(k, q string) string {
	k = strings.TrimSpace(k)
	if strings.HasPrefix(k, "(*") {
		return "(*" + q + "." + k[2:]
	}
	if strings.HasPrefix(k, "(") {
		return "(" + q + "." + k[1:]
	}
	return q + "." + k
}

// normalizeIfaceKey: "Driver.EditConfig" or "netconf.Driver.EditConfig" or "(pkg/path.Driver).EditConfig"
func normalizeIfaceKey(k, q string) string {
	k = strings.TrimSpace(k)
	if strings.HasPrefix(k, "(") {
		return k
	}
	i := strings.LastIndex(k, ".")
	typ, m := k[:i], k[i+1:]
	if !strings.Contains(typ, ".") {
		typ = q + "." + typ
	}
	return "(" + typ + ")." + m
}

// ---------------------------------------------------------------------------
// expression rewriting:  ==>  <==>  $name

func splitTop(s, sep string) []string {
	var parts []string
	depth := 0
	inStr := byte(0)
	last := 0
	for i := 0; i < len(s); i++ {
		c := s[i]
		if inStr != 0 {
			if c == '\\' {
				i++
				continue
			}
			if c == inStr {
				inStr = 0
			}
			continue
		}
		switch c {
		case '"', '\'', '`':
			inStr = c
		case '(', '[', '{':
			depth++
		case ')', ']', '}':
			depth--
		default:
			if depth == 0 && strings.HasPrefix(s[i:], sep) {
				// make sure "==>" is not matched inside "<==>"
				if sep == "==>" && i > 0 && s[i-1] == '<' {
					continue
				}
				parts = append(parts, s[last:i])
				last = i + len(sep)
				i += len(sep) - 1
			}
		}
	}
	parts = append(parts, s[last:])
	return parts
}

// rewriteExpr turns the contract syntax into a parseable Go expression.
func rewriteExpr(s string) (string, error) {
	s = strings.TrimSpace(s)
	s = strings.ReplaceAll(s, "$", "ζ")
	return rewriteImp(s)
}

func rewriteImp(s string) (string, error) {
	// first recurse into bracketed groups
	var sb strings.Builder
	depth := 0
	start := -1
	inStr := byte(0)
	for i := 0; i < len(s); i++ {
		c := s[i]
		if inStr != 0 {
			if depth == 0 {
				sb.WriteByte(c)
			}
			if c == '\\' && i+1 < len(s) {
				i++
				if depth == 0 {
					sb.WriteByte(s[i])
				}
				continue
			}
			if c == inStr {
				inStr = 0
			}
			continue
		}
		switch c {
		case '"', '\'', '`':
			inStr = c
			if depth == 0 {
				sb.WriteByte(c)
			}
		case '(', '[':
			if depth == 0 {
				start = i
				sb.WriteByte(c)
			}
			depth++
		case ')', ']':
			depth--
			if depth < 0 {
				return "", fmt.Errorf("unbalanced brackets in %q", s)
			}
			if depth == 0 {
				inner := s[start+1 : i]
				var parts []string
				for _, p := range splitTop(inner, ",") {
					r, err := rewriteImp(p)
					if err != nil {
						return "", err
					}
					parts = append(parts, r)
				}
				sb.WriteString(strings.Join(parts, ","))
				sb.WriteByte(c)
			}
		default:
			if depth == 0 {
				sb.WriteByte(c)
			}
		}
	}
	if depth != 0 {
		return "", fmt.Errorf("unbalanced brackets in %q", s)
	}
	flat := sb.String()
	// now split flat at top-level <==> and ==>
	iffs := splitTop(flat, "<==>")
	if len(iffs) > 1 {
		if len(iffs) != 2 {
			return "", fmt.Errorf("chained <==> in %q", s)
		}
		a, err := rewriteImpFlat(iffs[0])
		if err != nil {
			return "", err
		}
		b, err := rewriteImpFlat(iffs[1])
		if err != nil {
			return "", err
		}
		return "iff__(" + a + "," + b + ")", nil
	}
	return rewriteImpFlat(flat)
}

func rewriteImpFlat(flat string) (string, error) {
	imps := splitTop(flat, "==>")
	if len(imps) == 1 {
		return strings.TrimSpace(flat), nil
	}
	// right associative
	out := strings.TrimSpace(imps[len(imps)-1])
	for i := len(imps) - 2; i >= 0; i-- {
		out = "implies__(" + strings.TrimSpace(imps[i]) + "," + out + ")"
	}
	return out, nil
}
