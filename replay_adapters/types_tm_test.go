package types

// Replay adapter (injected by /verif/bin/gvc via `go test -overlay`; never written into /repo).
// Executable form of the C05/C06 contract clauses of the transaction manager and of the intent constructor,
// evaluated on the real code over a small exhaustive scenario space.

import (
	"context"
	"errors"
	"fmt"
	"sort"
	"testing"
	"time"

	"github.com/beevik/etree"
	"github.com/sdcio/data-server/pkg/cache"
	"github.com/sdcio/data-server/pkg/datastore/target"
	"github.com/sdcio/data-server/pkg/tree"
	sdcpb "github.com/sdcio/sdc-protos/sdcpb"
)

type vrRollbacker struct {
	fail  bool
	calls []*Transaction
}

func (r *vrRollbacker) TransactionRollback(ctx context.Context, tr *Transaction, dryRun bool) (*sdcpb.TransactionSetResponse, error) {
	r.calls = append(r.calls, tr)
	if r.fail {
		return nil, errors.New("rollback failed")
	}
	return &sdcpb.TransactionSetResponse{}, nil
}

// vrTimerStopped: a timer that was started (every scenario starts it) and is no longer armed
func vrTimerStopped(t *TransactionCancelTimer) bool {
	if t == nil {
		return false
	}
	t.doneMutex.Lock()
	defer t.doneMutex.Unlock()
	if t.done == nil {
		return true
	}
	select {
	case <-t.done:
		return true
	default:
		return false
	}
}

func vrCatch(fn, input string, f func()) {
	defer func() {
		if r := recover(); r != nil {
			fmt.Printf("REPLAY-FAIL fn=%s clause=panic input=%s panic=%v\n", fn, input, r)
		}
	}()
	f()
}

func TestVerifReplayTypes(t *testing.T) {
	counts := map[string]int{}
	fail := func(fn, clause, input, why string) {
		fmt.Printf("REPLAY-FAIL fn=%s clause=%s input=%s why=%s\n", fn, clause, input, why)
	}
	// NewTransactionIntent / AddIntentContent
	for _, prio := range []int32{0, 1, 5, 100, -3, 2147483647} {
		fn := "datastore/types.NewTransactionIntent"
		counts[fn]++
		ti := NewTransactionIntent("intent1", prio)
		in := fmt.Sprintf("name=intent1,priority=%d", prio)
		if ti == nil || ti.name != "intent1" || ti.priority != prio || ti.GetPriority() != prio {
			fail(fn, "carries_priority", in, fmt.Sprintf("priority=%d", ti.GetPriority()))
		}
		if ti.delete || ti.onlyIntended || ti.updates != nil {
			fail(fn, "starts_empty", in, "flags or updates set")
		}
		fn2 := "(*datastore/types.Transaction).AddIntentContent"
		for _, n := range []int{0, 1, 3} {
			counts[fn2]++
			tr := NewTransaction("t1", nil)
			var content tree.UpdateSlice
			for i := 0; i < n; i++ {
				content = append(content, cache.NewUpdate([]string{"a", fmt.Sprint(i)}, []byte{byte(i)}, prio, "intent1", 0))
			}
			err := tr.AddIntentContent("intent1", TransactionIntentOld, prio, content)
			in2 := fmt.Sprintf("name=intent1,priority=%d,len(content)=%d", prio, n)
			got := tr.oldIntents["intent1"]
			ok := err == nil && got != nil && got.name == "intent1" && got.priority == prio && len(got.updates) == n
			if ok {
				for i := range content {
					if got.updates[i] != content[i] {
						ok = false
					}
				}
			}
			if !ok {
				fail(fn2, "snapshot", in2, fmt.Sprintf("stored=%+v err=%v", got, err))
			}
			if err2 := tr.AddIntentContent("intent1", TransactionIntentOld, prio+1, nil); err2 == nil || tr.oldIntents["intent1"] != got {
				fail(fn2, "duplicate_refused", in2, "second insert accepted")
			}
		}
	}
	// manager: Confirm / Cancel with matching and non matching ids
	for _, op := range []string{"Confirm", "Cancel"} {
		for _, idMatches := range []bool{true, false} {
			for _, rbFails := range []bool{false, true} {
				for _, nOld := range []int{0, 2} {
					fn := "(*datastore/types.TransactionManager)." + op
					counts[fn]++
					rb := &vrRollbacker{fail: rbFails}
					tm := NewTransactionManager(rb)
					tr := NewTransaction("tx-open", tm)
					tr.SetTimeout(time.Hour)
					for i := 0; i < nOld; i++ {
						tr.AddIntentContent(fmt.Sprintf("old%d", i), TransactionIntentOld, int32(10+i), tree.UpdateSlice{cache.NewUpdate([]string{"x"}, []byte{1}, int32(10+i), fmt.Sprintf("old%d", i), 0)})
					}
					if _, err := tm.RegisterTransaction(context.Background(), tr); err != nil {
						t.Fatalf("register: %v", err)
					}
					if err := tr.StartRollbackTimer(); err != nil {
						t.Fatalf("start timer: %v", err)
					}
					id := "tx-open"
					if !idMatches {
						id = "tx-other"
					}
					in := fmt.Sprintf("open=tx-open,id=%s,rollbackFails=%v,oldIntents=%d", id, rbFails, nOld)
					var err error
					vrCatch(fn, in, func() {
						if op == "Confirm" {
							err = tm.Confirm(id)
						} else {
							err = tm.Cancel(context.Background(), id)
						}
					})
					stopped := vrTimerStopped(tr.timer)
					if !idMatches {
						if err == nil || tm.transaction != tr || stopped || len(rb.calls) != 0 {
							fail(fn, "wrong_id_no_effect", in, fmt.Sprintf("err=%v slotKept=%v timerStopped=%v rollbacks=%d", err, tm.transaction == tr, stopped, len(rb.calls)))
						}
					} else if op == "Confirm" {
						if err != nil || tm.transaction != nil || !stopped || len(rb.calls) != 0 {
							fail(fn, "right_id_confirms", in, fmt.Sprintf("err=%v slotCleared=%v timerStopped=%v rollbacks=%d", err, tm.transaction == nil, stopped, len(rb.calls)))
						}
					} else {
						okRb := len(rb.calls) == 1 && stopped
						if okRb {
							r := rb.calls[0]
							okRb = r.isRollback && len(r.newIntents) == len(tr.oldIntents)
							for k, v := range tr.oldIntents {
								if r.newIntents[k] != v {
									okRb = false
								}
							}
						}
						if !okRb {
							fail(fn, "rolls_back_once", in, fmt.Sprintf("timerStopped=%v rollbacks=%d", stopped, len(rb.calls)))
						}
						// the timer is stopped by then: the slot is released whatever the rollback returns, and the error is passed on
						if tm.transaction != nil || (err == nil) == rbFails {
							fail(fn, "slot_released_whatever_the_rollback_returns", in, fmt.Sprintf("err=%v slotCleared=%v", err, tm.transaction == nil))
						}
					}
					if !vrTimerStopped(tr.timer) {
						tr.timer.Stop()
					}
				}
			}
		}
	}
	// GetRollbackTransaction: every former version comes back as it was, whatever the transaction made of the intent
	for _, shape := range []string{"not handed in again", "same content, same priority", "same content, another priority", "other content, same priority", "deleted"} {
		fn := "(*datastore/types.Transaction).GetRollbackTransaction"
		counts[fn]++
		tm := NewTransactionManager(&vrRollbacker{})
		tr := NewTransaction("tx-open", tm)
		tr.SetTimeout(time.Hour)
		for i := 0; i < 2; i++ {
			name := fmt.Sprintf("old%d", i)
			tr.AddIntentContent(name, TransactionIntentOld, int32(10+i), tree.UpdateSlice{cache.NewUpdate([]string{"x"}, []byte{1}, int32(10+i), name, 0)})
			var nu *cache.Update
			prio := int32(10 + i)
			switch shape {
			case "not handed in again":
				continue
			case "same content, same priority":
				nu = cache.NewUpdate([]string{"x"}, []byte{1}, prio, name, 0)
			case "same content, another priority":
				prio = 30
				nu = cache.NewUpdate([]string{"x"}, []byte{1}, prio, name, 0)
			case "other content, same priority":
				nu = cache.NewUpdate([]string{"x"}, []byte{2}, prio, name, 0)
			}
			ti := NewTransactionIntent(name, prio)
			if nu != nil {
				ti.AddUpdate(nu)
			} else {
				ti.SetDeleteFlag()
			}
			tr.AddTransactionIntent(ti, TransactionIntentNew)
		}
		if err := tr.StartRollbackTimer(); err != nil {
			t.Fatalf("start timer: %v", err)
		}
		in := "the new versions of the two stored intents: " + shape
		var r *Transaction
		vrCatch(fn, in, func() { r = tr.GetRollbackTransaction() })
		if r != nil {
			var missing []string
			for k, v := range tr.oldIntents {
				if r.newIntents[k] != v {
					missing = append(missing, fmt.Sprintf("%s@%d", k, v.GetPriority()))
				}
			}
			sort.Strings(missing)
			if len(missing) > 0 || len(r.newIntents) != len(tr.oldIntents) || !r.isRollback {
				fail(fn, "resubmits_old_versions", in, fmt.Sprintf("the rollback hands in %d intent(s), the former versions are %d; not given back: %v", len(r.newIntents), len(tr.oldIntents), missing))
			}
		}
		if !vrTimerStopped(tr.timer) {
			tr.timer.Stop()
		}
	}
	// Rollback (called by the rollback timer): exactly one rollback, slot cleared whatever the rollback returns
	for _, rbFails := range []bool{false, true} {
		fn := "(*datastore/types.TransactionManager).Rollback"
		counts[fn]++
		rb := &vrRollbacker{fail: rbFails}
		tm := NewTransactionManager(rb)
		tr := NewTransaction("tx-open", tm)
		tr.SetTimeout(time.Hour)
		if _, err := tm.RegisterTransaction(context.Background(), tr); err != nil {
			t.Fatalf("register: %v", err)
		}
		rtr := NewTransaction("tx-open - Rollback", tm)
		err := tm.Rollback(context.Background(), rtr)
		in := fmt.Sprintf("open=tx-open,rollbackFails=%v", rbFails)
		if len(rb.calls) != 1 || rb.calls[0] != rtr || tm.transaction != nil {
			fail(fn, "one_rollback_slot_cleared", in, fmt.Sprintf("rollbacks=%d slotCleared=%v err=%v", len(rb.calls), tm.transaction == nil, err))
		}
	}
	// RegisterTransaction exclusivity
	{
		fn := "(*datastore/types.TransactionManager).RegisterTransaction"
		counts[fn]++
		tm := NewTransactionManager(&vrRollbacker{})
		a, b := NewTransaction("a", tm), NewTransaction("b", tm)
		g1, e1 := tm.RegisterTransaction(context.Background(), a)
		g2, e2 := tm.RegisterTransaction(context.Background(), b)
		if g1 == nil || e1 != nil || tm.transaction != a {
			fail(fn, "registers", "empty manager", fmt.Sprint(e1))
		}
		if g2 != nil || e2 == nil || tm.transaction != a {
			fail(fn, "exclusive", "occupied manager", fmt.Sprint(e2))
		}
	}
	// a timer is stopped from two sides (the rollback run by the expired timer, and a Confirm or Cancel): the second Stop
	// finds nothing to do
	{
		fn := "(*datastore/types.TransactionCancelTimer).Stop"
		for i := 0; i < 200; i++ {
			counts[fn]++
			ct := NewTransactionCancelTimer(time.Hour, func() {})
			vrCatch(fn, fmt.Sprintf("Start, Stop, Stop (run %d)", i), func() {
				if err := ct.Start(); err != nil {
					fail(fn, "stopped", "Start", err.Error())
				}
				ct.Stop()
				ct.Stop()
				if ct.Started() {
					fail(fn, "stopped", "Start, Stop, Stop", "the timer still counts as started")
				}
				// and it can be armed again
				if err := ct.Start(); err != nil {
					fail(fn, "stopped", "Start, Stop, Stop, Start", err.Error())
				}
				ct.Stop()
			})
		}
	}
	// replace mode: whatever the options, the document a NETCONF device gets names the replace operation on every
	// top-level element (an attribute on the document itself is never serialised)
	{
		fn := "(*datastore/types.TargetSourceReplace).ToXML"
		for opt := 0; opt < 4; opt++ {
			for _, tops := range [][]string{{"system"}, {"system", "interface"}, {}} {
				counts[fn]++
				opNs, useRemove := opt&1 != 0, opt&2 != 0
				src := &vrXMLSource{tops: tops}
				in := fmt.Sprintf("top-level elements=%v,operationWithNamespace=%v,useOperationRemove=%v", tops, opNs, useRemove)
				vrCatch(fn, in, func() {
					doc, err := NewTargetSourceReplace(src).ToXML(true, false, opNs, useRemove)
					if err != nil {
						fail(fn, "every_top_level_element_is_replaced", in, err.Error())
						return
					}
					str, _ := doc.WriteToString()
					re := etree.NewDocument()
					if err := re.ReadFromString("<config>" + str + "</config>"); err != nil {
						fail(fn, "every_top_level_element_is_replaced", in, "the document does not parse: "+err.Error())
						return
					}
					got := re.Root().ChildElements()
					if len(got) != len(tops) {
						fail(fn, "every_top_level_element_is_replaced", in, fmt.Sprintf("%d top-level elements in %s", len(got), str))
					}
					for _, e := range got {
						op := ""
						for _, a := range e.Attr {
							if a.Key == "operation" {
								op = a.Value
							}
						}
						if op != "replace" {
							fail(fn, "every_top_level_element_is_replaced", in, fmt.Sprintf("element %s carries operation %q in %s", e.Tag, op, str))
						}
					}
				})
			}
		}
	}
	for fn, n := range counts {
		fmt.Printf("REPLAY-CASES fn=%s n=%d\n", fn, n)
	}
}

// vrXMLSource is a target source that renders a fixed document
type vrXMLSource struct {
	target.TargetSource
	tops []string
}

func (s *vrXMLSource) ToXML(onlyNewOrUpdated bool, honorNamespace bool, operationWithNamespace bool, useOperationRemove bool) (*etree.Document, error) {
	d := etree.NewDocument()
	for _, t := range s.tops {
		d.CreateElement(t).CreateElement("leaf").SetText("v")
	}
	return d, nil
}
