package datastore

// Replay adapter (injected by /verif/bin/gvc via `go test -overlay`; never written into /repo).
// Runs the real TransactionSet over a small scenario space with a recording cache client and target (gomock mocks of
// the repository, test schema of the repository) and evaluates the executable form of the C03/C06/C07 clauses of
// TransactionSet / lowlevelTransactionSet / replaceIntent on the recorded effect trace.

import (
	"context"
	"errors"
	"fmt"
	"github.com/sdcio/data-server/pkg/utils"
	"sort"
	"strings"
	"sync"
	"testing"
	"time"

	"github.com/openconfig/ygot/ygot"
	"github.com/sdcio/data-server/mocks/mockcacheclient"
	"github.com/sdcio/data-server/mocks/mocktarget"
	"github.com/sdcio/data-server/pkg/cache"
	"github.com/sdcio/data-server/pkg/config"
	schemaClient "github.com/sdcio/data-server/pkg/datastore/clients/schema"
	"github.com/sdcio/data-server/pkg/datastore/target"
	"github.com/sdcio/data-server/pkg/datastore/types"
	"github.com/sdcio/data-server/pkg/utils/testhelper"
	sdcio_schema "github.com/sdcio/data-server/tests/sdcioygot"
	sdcpb "github.com/sdcio/sdc-protos/sdcpb"
	"go.uber.org/mock/gomock"
)

type vrScenario struct {
	content    string // valid | missing-mandatory
	dryRun     bool
	replace    bool
	sbiFails   bool
	modifyFail string // "", intended, config
	// extended scenarios
	timeout         time.Duration // rollback timeout of the transaction (default one hour)
	replaceContent  string        // content of the replace intent (default valid)
	existingPrio    int32         // != 0: the intent already exists in the intended store with this priority
	newPrio         int32         // priority of the intent in the transaction (default 10)
	sbiFailsFrom    int           // > 0: the target rejects its n-th and every later Set (1-based)
	intents         int           // > 1: that many intents (owner1..ownerN, same content) in the transaction
	modifyFailNth   int           // > 0: the n-th write of the intended store fails (1-based), the others succeed
	duplicate       bool          // the request names owner1 twice: it is refused as a whole
	named           [][2]string   // != nil: the intents of the transaction as (name, content) pairs, instead of owner1..ownerN
	existingContent string        // content of the existing intent (default valid)
}

var vrTraceMu sync.Mutex

// vrSent collects what the target is handed by the run in progress: "U <xpath>=<value>" / "D <xpath>" (under vrTraceMu)
var vrSent []string

func (s vrScenario) String() string {
	return fmt.Sprintf("content=%s,dryRun=%v,replaceIntent=%v,targetSetFails=%v,cacheModifyFails=%q", s.content, s.dryRun, s.replace, s.sbiFails, s.modifyFail)
}

func vrIntentJSON(t *testing.T, content string) string {
	device := &sdcio_schema.Device{
		Interface: map[string]*sdcio_schema.SdcioModel_Interface{
			"ethernet-1/1": {Name: ygot.String("ethernet-1/1"), Description: ygot.String("foo")},
		},
	}
	if content == "warning-only" {
		// a leafref with require-instance false that does not resolve: a warning, not an error
		return `{"leafref-optional":"mgmt0"}`
	}
	if content == "pattern-error" {
		return `{"patterntest":"bye bye"}`
	}
	if content == "missing-mandatory" {
		device.Doublekey = map[sdcio_schema.SdcioModel_Doublekey_Key]*sdcio_schema.SdcioModel_Doublekey{
			{Key1: "k1.1", Key2: "k1.2"}: {Key1: ygot.String("k1.1"), Key2: ygot.String("k1.2"), Cont: &sdcio_schema.SdcioModel_Doublekey_Cont{Value1: ygot.String("containerval1.1")}},
		}
	}
	js, err := ygot.EmitJSON(device, &ygot.EmitJSONConfig{Format: ygot.RFC7951, SkipValidation: true})
	if err != nil {
		t.Fatal(err)
	}
	return js
}

func vrRun(t *testing.T, sc vrScenario) (trace []string, rsp *sdcpb.TransactionSetResponse, err error, d *Datastore) {
	tr, rsp, err, d := vrRunLive(t, sc)
	vrTraceMu.Lock()
	defer vrTraceMu.Unlock()
	return append([]string{}, (*tr)...), rsp, err, d
}

// vrRunLive returns the live effect trace: effects of timers firing later are appended to it (read under vrTraceMu)
func vrRunLive(t *testing.T, sc vrScenario) (tracep *[]string, rsp *sdcpb.TransactionSetResponse, err error, d *Datastore) {
	var trace []string
	tracep = &trace
	ctx, cancel := context.WithTimeout(context.Background(), 2*time.Second)
	defer cancel()
	controller := gomock.NewController(t)
	cacheClient := mockcacheclient.NewMockClient(controller)
	intendedWrites := 0
	cacheClient.EXPECT().Modify(gomock.Any(), gomock.Any(), gomock.Any(), gomock.Any(), gomock.Any()).AnyTimes().DoAndReturn(
		func(_ context.Context, _ string, opts *cache.Opts, dels [][]string, upds []*cache.Update) error {
			store := strings.ToLower(opts.Store.String())
			fails := sc.modifyFail == store
			if store == "intended" {
				intendedWrites++
				fails = fails || intendedWrites == sc.modifyFailNth
			}
			vrTraceMu.Lock()
			defer vrTraceMu.Unlock()
			trace = append(trace, fmt.Sprintf("Modify(%s,%s,%d,ok=%v)", store, opts.Owner, opts.Priority, !fails))
			if fails {
				return errors.New("cache modify failed")
			}
			return nil
		},
	)
	sbi := mocktarget.NewMockTarget(controller)
	sets := 0
	sbi.EXPECT().Set(gomock.Any(), gomock.Any()).AnyTimes().DoAndReturn(
		func(sctx context.Context, src target.TargetSource) (*sdcpb.SetDataResponse, error) {
			vrTraceMu.Lock()
			defer vrTraceMu.Unlock()
			sets++
			if dels, e := src.ToProtoDeletes(sctx); e == nil {
				for _, dp := range dels {
					vrSent = append(vrSent, "D "+utils.ToXPath(dp, false))
				}
			}
			if upds, e := src.ToProtoUpdates(sctx, true); e == nil {
				for _, u := range upds {
					vrSent = append(vrSent, "U "+utils.ToXPath(u.GetPath(), false)+"="+utils.TypedValueToString(u.GetValue()))
				}
			}
			fails := sc.sbiFails || (sc.sbiFailsFrom > 0 && sets >= sc.sbiFailsFrom)
			trace = append(trace, fmt.Sprintf("Set(ok=%v)", !fails))
			if fails {
				return nil, errors.New("device rejected the change")
			}
			return &sdcpb.SetDataResponse{}, nil
		},
	)
	scl, schema, e := testhelper.InitSDCIOSchema()
	if e != nil {
		t.Fatal(e)
	}
	d = &Datastore{
		config:       &config.DatastoreConfig{Name: "dev1", Schema: schema, Validation: &config.Validation{DisableConcurrency: true}},
		sbi:          sbi,
		cacheClient:  cacheClient,
		schemaClient: schemaClient.NewSchemaClientBound(schema.GetSchema(), scl),
		dmutex:       &sync.Mutex{},
	}
	d.transactionManager = types.NewTransactionManager(NewDatastoreRollbackAdapter(d))
	mk := func(name string, prio int32, content string) *types.TransactionIntent {
		ti, e := d.SdcpbTransactionIntentToInternalTI(ctx, &sdcpb.TransactionIntent{Intent: name, Priority: prio,
			Update: []*sdcpb.Update{{Path: &sdcpb.Path{}, Value: &sdcpb.TypedValue{Value: &sdcpb.TypedValue_JsonVal{JsonVal: []byte(vrIntentJSON(t, content))}}}}})
		if e != nil {
			t.Fatal(e)
		}
		return ti
	}
	var existing []*cache.Update
	if sc.existingPrio != 0 {
		ec := sc.existingContent
		if ec == "" {
			ec = "valid"
		}
		for _, u := range mk("owner1", sc.existingPrio, ec).GetUpdates() {
			existing = append(existing, u)
		}
	}
	testhelper.ConfigureCacheClientMock(t, cacheClient, existing, existing, nil, nil)
	timeout, prio := time.Hour, int32(10)
	if sc.timeout != 0 {
		timeout = sc.timeout
	}
	if sc.newPrio != 0 {
		prio = sc.newPrio
	}
	var replace *types.TransactionIntent
	if sc.replace {
		rc := sc.replaceContent
		if rc == "" {
			rc = "valid"
		}
		replace = mk("replace", 10, rc)
	}
	tis := []*types.TransactionIntent{mk("owner1", prio, sc.content)}
	for i := 2; i <= sc.intents; i++ {
		tis = append(tis, mk(fmt.Sprintf("owner%d", i), prio+int32(i), sc.content))
	}
	if sc.duplicate {
		tis = append(tis, mk("owner1", prio, sc.content))
	}
	if sc.named != nil {
		tis = nil
		for i, nc := range sc.named {
			tis = append(tis, mk(nc[0], prio+int32(i), nc[1]))
		}
	}
	rsp, err = d.TransactionSet(ctx, "trans1", tis, replace, timeout, sc.dryRun)
	return
}

func TestVerifReplayTransactionSet(t *testing.T) {
	fnTS, fnLL := "(*datastore.Datastore).TransactionSet", "(*datastore.Datastore).lowlevelTransactionSet"
	n := 0
	for _, content := range []string{"valid", "missing-mandatory"} {
		for _, dry := range []bool{false, true} {
			for _, repl := range []bool{false, true} {
				for _, sbiF := range []bool{false, true} {
					for _, mf := range []string{"", "intended", "config"} {
						sc := vrScenario{content: content, dryRun: dry, replace: repl, sbiFails: sbiF, modifyFail: mf}
						n++
						var trace []string
						var rsp *sdcpb.TransactionSetResponse
						var err error
						var d *Datastore
						panicked := false
						func() {
							defer func() {
								if r := recover(); r != nil {
									panicked = true
									fmt.Printf("REPLAY-FAIL fn=%s clause=panic input=%s panic=%v\n", fnTS, sc, r)
								}
							}()
							trace, rsp, err, d = vrRun(t, sc)
						}()
						if panicked {
							continue
						}
						reported := false
						for _, ir := range rsp.GetIntents() {
							if len(ir.GetErrors()) > 0 {
								reported = true
							}
						}
						input := fmt.Sprintf("%s err=%v reportedIntentErrors=%v effects=%v", sc, err, reported, trace)
						fail := func(clause, why string, fns ...string) {
							for _, fn := range fns {
								fmt.Printf("REPLAY-FAIL fn=%s clause=%s input=%s why=%s\n", fn, clause, input, why)
							}
						}
						both := []string{fnTS}
						if !repl {
							both = append(both, fnLL)
						}
						if dry && len(trace) != 0 {
							fail("dry_run_sends_nothing", "effects during a dry run", fnTS)
							fail("dryrun_changes_nothing", "effects during a dry run", both[1:]...)
						}
						if reported && len(trace) != 0 && !repl {
							fail("rejected_changes_nothing", "validation errors reported, yet effects happened", both...)
						}
						if reported && len(trace) != 0 && repl {
							// recorded finding: the replace intent is applied before the other intents are validated
							fail("rejected_changes_nothing.known", "validation errors reported for an intent, yet the (valid) replace intent of the same transaction was applied", fnTS)
						}
						if len(trace) > 0 && !strings.HasPrefix(trace[0], "Set(") {
							fail("device_first", "first effect "+trace[0], both...)
						}
						if !repl {
							sets := 0
							for i, e := range trace {
								if strings.HasPrefix(e, "Set(") {
									sets++
								}
								if strings.HasPrefix(e, "Modify(config") && i != len(trace)-1 {
									fail("running_mirror_last", "config store written before the end", both...)
								}
								if strings.Contains(e, "ok=false") && (i != len(trace)-1 || err == nil) {
									fail("failed_write_is_last", "a failed write was followed by further effects or success", both...)
								}
							}
							if sets > 1 {
								fail("device_written_once", fmt.Sprint(sets), both...)
							}
							if len(trace) > 0 && strings.Contains(trace[0], "ok=false") && (err == nil || len(trace) != 1) {
								fail("rejected_by_device_persists_nothing", "store written after the device rejected the change", both...)
							}
							if err == nil {
								for _, e := range trace {
									if strings.Contains(e, "ok=false") {
										fail("success_means_every_write_succeeded", e, both...)
									}
								}
							}
						}
						// C06: the datastore is never left wedged. Only an applied transaction may stay open; after any other
						// outcome a further (dry-run) TransactionSet must be accepted.
						applied := err == nil && !dry && !reported && len(trace) > 0
						if !applied {
							ctx2, cancel2 := context.WithTimeout(context.Background(), 300*time.Millisecond)
							_, err2 := d.TransactionSet(ctx2, "trans2", nil, nil, time.Hour, true)
							cancel2()
							if errors.Is(err2, ErrDatastoreLocked) {
								if err != nil {
									fail("error_frees_slot", "a further TransactionSet is refused (datastore locked) after an error", fnTS)
								}
								fail("never_wedged", "nothing was applied, yet a further TransactionSet is refused: the transaction stayed registered with no timer", fnTS)
							}
						} else {
							d.transactionManager.Confirm("trans1")
						}
					}
				}
			}
		}
	}
	// C03: a replace intent that does not validate (here: a finding that is not attributed to the replace owner) is
	// surfaced and has no effect, dry run or not
	for _, dry := range []bool{false, true} {
		n++
		sc := vrScenario{content: "valid", replace: true, replaceContent: "missing-mandatory", dryRun: dry}
		trace, rsp, err, _ := vrRun(t, sc)
		reported := false
		for _, ir := range rsp.GetIntents() {
			if len(ir.GetErrors()) > 0 {
				reported = true
			}
		}
		input := fmt.Sprintf("%s,replaceIntentContent=list entry without its mandatory leaf err=%v reportedIntentErrors=%v effects=%v", sc, err, reported, trace)
		if (err == nil && !reported) || len(trace) != 0 {
			for _, fn := range []string{fnTS, "(*datastore.Datastore).replaceIntent"} {
				fmt.Printf("REPLAY-FAIL fn=%s clause=invalid_replace_is_error_without_effect input=%s why=an invalid replace intent is accepted or has effects\n", fn, input)
			}
		}
	}
	fmt.Printf("REPLAY-CASES fn=%s n=%d\n", "(*datastore.Datastore).replaceIntent", 2)
	// C07: a transaction that failed leaves no armed rollback timer behind. The failing run uses a 40 ms rollback timeout;
	// an orphaned timer shows as further effects after the error was returned.
	for _, mf := range []string{"intended", "config"} {
		n++
		sc := vrScenario{content: "valid", modifyFail: mf, timeout: 40 * time.Millisecond}
		tr, _, err, _ := vrRunLive(t, sc)
		vrTraceMu.Lock()
		before := append([]string{}, (*tr)...)
		vrTraceMu.Unlock()
		time.Sleep(150 * time.Millisecond)
		vrTraceMu.Lock()
		after := append([]string{}, (*tr)...)
		vrTraceMu.Unlock()
		if err != nil && len(after) != len(before) {
			for _, fn := range []string{fnTS, fnLL} {
				fmt.Printf("REPLAY-FAIL fn=%s clause=failed_run_leaves_no_timer input=%s,rollbackTimeout=40ms err=%v effects=%v why=the transaction failed, yet its rollback timer fired afterwards: later effects %v\n", fn, sc, err, before, after[len(before):])
			}
		}
	}
	// C05: the rollback of a re-prioritised intent writes the old content back under the old priority
	for _, pr := range [][2]int32{{10, 5}, {5, 10}, {10, 10}} {
		n++
		sc := vrScenario{content: "valid", existingPrio: pr[0], newPrio: pr[1]}
		tr, _, err, d := vrRunLive(t, sc)
		if err != nil {
			fmt.Printf("REPLAY-FAIL fn=%s clause=panic input=%s,existingPriority=%d,newPriority=%d why=unexpected error %v\n", fnLL, sc, pr[0], pr[1], err)
			continue
		}
		vrTraceMu.Lock()
		before := len(*tr)
		vrTraceMu.Unlock()
		cerr := d.transactionManager.Cancel(context.Background(), "trans1")
		vrTraceMu.Lock()
		rb := append([]string{}, (*tr)[before:]...)
		vrTraceMu.Unlock()
		want := fmt.Sprintf("Modify(intended,owner1,%d,", pr[0])
		found := false
		for _, e := range rb {
			if strings.HasPrefix(e, want) {
				found = true
			}
		}
		if !found {
			for _, fn := range []string{fnTS, fnLL} {
				fmt.Printf("REPLAY-FAIL fn=%s clause=snapshot_priority_is_content_priority input=%s,existingPriority=%d,newPriority=%d why=cancel (err %v) restores the intent with %v, expected a write under its old priority %d\n", fn, sc, pr[0], pr[1], cerr, rb, pr[0])
			}
		}
	}
	// C07: a re-prioritised intent whose apply fails: the device is asked first, and nothing is written when it refuses
	for _, pr := range [][2]int32{{10, 5}, {5, 10}} {
		for _, sbiF := range []bool{false, true} {
			n++
			sc := vrScenario{content: "valid", existingPrio: pr[0], newPrio: pr[1], sbiFails: sbiF}
			trace, _, err, d := vrRun(t, sc)
			input := fmt.Sprintf("%s,existingPriority=%d,newPriority=%d err=%v effects=%v", sc, pr[0], pr[1], err, trace)
			for _, fn := range []string{fnTS, fnLL} {
				if len(trace) > 0 && !strings.HasPrefix(trace[0], "Set(") {
					fmt.Printf("REPLAY-FAIL fn=%s clause=device_first input=%s why=first effect %s\n", fn, input, trace[0])
				}
				if sbiF && (err == nil || len(trace) != 1) {
					fmt.Printf("REPLAY-FAIL fn=%s clause=rejected_by_device_persists_nothing input=%s why=the device rejected the change, yet a store was written or the run succeeded\n", fn, input)
					fmt.Printf("REPLAY-FAIL fn=%s clause=failed_apply_persists_nothing input=%s why=the device rejected the change, yet a store was written or the run succeeded\n", fn, input)
				}
			}
			if err == nil {
				d.transactionManager.Confirm("trans1")
			}
		}
	}
	// C07: three intents in one transaction, one write of the intended store fails: the failure is reported, whichever it is
	for nth := 1; nth <= 3; nth++ {
		n++
		sc := vrScenario{content: "valid", intents: 3, modifyFailNth: nth}
		trace, _, err, d := vrRun(t, sc)
		if err == nil {
			for _, fn := range []string{fnTS, fnLL} {
				fmt.Printf("REPLAY-FAIL fn=%s clause=success_means_every_write_succeeded input=%s,intents=3,failingIntendedWrite=%d err=<nil> effects=%v why=a write of the intended store failed, yet the transaction reports success\n", fn, sc, nth, trace)
			}
			d.transactionManager.Confirm("trans1")
		}
	}
	// C03: a dry run, or a rejected run, of a re-prioritised intent leaves the stores as they were
	for _, pr := range [][2]int32{{10, 5}, {5, 10}} {
		for _, kind := range []string{"dry-run", "rejected"} {
			n++
			sc := vrScenario{content: "valid", existingPrio: pr[0], newPrio: pr[1], dryRun: kind == "dry-run"}
			if kind == "rejected" {
				sc.content = "missing-mandatory"
			}
			trace, _, err, _ := vrRun(t, sc)
			if len(trace) != 0 {
				clause := map[string]string{"dry-run": "dryrun_changes_nothing", "rejected": "rejected_changes_nothing"}[kind]
				for _, fn := range []string{fnTS, fnLL} {
					fmt.Printf("REPLAY-FAIL fn=%s clause=%s input=%s,existingPriority=%d,newPriority=%d err=%v effects=%v why=a %s transaction has effects\n", fn, clause, sc, pr[0], pr[1], err, trace, kind)
				}
			}
		}
	}
	// C03: an error reported for any intent rejects the transaction, whatever the other intents report and however
	// the names of the intents sort
	for _, named := range [][][2]string{
		{{"alpha", "pattern-error"}, {"zeta", "warning-only"}},
		{{"zeta", "pattern-error"}, {"alpha", "warning-only"}},
		{{"alpha", "pattern-error"}, {"zeta", "valid"}},
		{{"alpha", "warning-only"}, {"beta", "pattern-error"}, {"zeta", "warning-only"}},
	} {
		n++
		sc := vrScenario{content: "valid", named: named}
		trace, rsp, err, _ := vrRun(t, sc)
		reported := false
		for _, ir := range rsp.GetIntents() {
			reported = reported || len(ir.GetErrors()) > 0
		}
		if err == nil && reported && len(trace) != 0 {
			for _, fn := range []string{fnTS, fnLL} {
				fmt.Printf("REPLAY-FAIL fn=%s clause=rejected_changes_nothing input=intents=%v,dryRun=false err=<nil> reportedIntentErrors=true effects=%v why=validation errors are reported for an intent, yet the transaction has effects\n", fn, named, trace)
			}
		}
		if err == nil && !reported {
			fmt.Printf("REPLAY-FAIL fn=%s clause=rejected_changes_nothing input=intents=%v why=no validation error reported for a value that violates its pattern\n", fnLL, named)
		}
	}
	// C03: the updates and deletes a dry run reports are the ones the same request sends when executed for real
	for _, repl := range []bool{false, true} {
		n++
		sc := vrScenario{content: "valid", replace: repl, dryRun: true}
		_, rspDry, errDry, _ := vrRun(t, sc)
		vrTraceMu.Lock()
		vrSent = nil
		vrTraceMu.Unlock()
		sc.dryRun = false
		_, _, errReal, dReal := vrRun(t, sc)
		vrTraceMu.Lock()
		sent := append([]string{}, vrSent...)
		vrTraceMu.Unlock()
		if errDry != nil || errReal != nil {
			fmt.Printf("REPLAY-FAIL fn=%s clause=panic input=%s why=unexpected errors %v / %v\n", fnTS, sc, errDry, errReal)
			continue
		}
		dReal.transactionManager.Confirm("trans1")
		var reported []string
		for _, dp := range rspDry.GetDelete() {
			reported = append(reported, "D "+utils.ToXPath(dp, false))
		}
		for _, u := range rspDry.GetUpdate() {
			reported = append(reported, "U "+utils.ToXPath(u.GetPath(), false)+"="+utils.TypedValueToString(u.GetValue()))
		}
		sort.Strings(reported)
		sort.Strings(sent)
		if strings.Join(reported, "; ") != strings.Join(sent, "; ") {
			clause := "dry_run_predicts_the_real_run"
			if repl {
				clause += ".known" // recorded finding: what the replace intent sends is not part of any response
			}
			fmt.Printf("REPLAY-FAIL fn=%s clause=%s input=%s why=the dry run reports [%s], the real run of the same request sends [%s]\n", fnTS, clause, sc, strings.Join(reported, "; "), strings.Join(sent, "; "))
		}
	}
	// C03: a request that is refused as a whole (the same intent named twice) has no effect, with or without a replace intent
	for _, repl := range []bool{false, true} {
		n++
		sc := vrScenario{content: "valid", replace: repl, duplicate: true}
		trace, _, err, dd := vrRun(t, sc)
		if err == nil || len(trace) != 0 {
			fmt.Printf("REPLAY-FAIL fn=%s clause=refused_request_has_no_effect input=%s,sameIntentTwice=true err=%v effects=%v why=a request that names an intent twice has to be refused without any effect\n", fnTS, sc, err, trace)
		}
		// C06: and it leaves the datastore able to accept the next transaction
		ctx2, cancel2 := context.WithTimeout(context.Background(), 300*time.Millisecond)
		_, err2 := dd.TransactionSet(ctx2, "trans2", nil, nil, time.Hour, true)
		cancel2()
		if errors.Is(err2, ErrDatastoreLocked) {
			for _, cl := range []string{"never_wedged", "error_frees_slot"} {
				fmt.Printf("REPLAY-FAIL fn=%s clause=%s input=%s,sameIntentTwice=true why=after the refused request a further TransactionSet is refused as well: the datastore is locked with no timer running\n", fnTS, cl, sc)
			}
		}
	}
	// C05: a rollback the validation rejects has restored nothing: the cancel says so (the stored former version of the
	// intent lacks a mandatory leaf, the transaction repairs it, the cancel would bring the former version back)
	{
		n++
		sc := vrScenario{content: "valid", existingPrio: 10, existingContent: "missing-mandatory"}
		trace, _, err, d := vrRunLive(t, sc)
		if err != nil {
			fmt.Printf("REPLAY-FAIL fn=%s clause=panic input=%s why=unexpected error %v\n", fnTS, sc, err)
		} else {
			vrTraceMu.Lock()
			before := len(*trace)
			vrTraceMu.Unlock()
			cerr := d.TransactionCancel(context.Background(), "trans1")
			vrTraceMu.Lock()
			after := len(*trace)
			vrTraceMu.Unlock()
			if cerr == nil && after == before {
				for _, fn := range []string{"(*datastore.DatastoreRollbackAdapter).TransactionRollback", "(*datastore/types.TransactionManager).Cancel", fnTS} {
					fmt.Printf("REPLAY-FAIL fn=%s clause=a_rejected_rollback_is_an_error input=%s,formerVersion=missing-mandatory,endedBy=cancel why=the rollback was rejected by the validation (nothing sent, nothing restored), yet the cancel reports success\n", fn, sc)
				}
			}
		}
	}
	// C06: whatever a cancel or the timer runs into, the datastore accepts a new transaction once the timeout has passed
	for _, how := range []string{"timer", "cancel"} {
		n++
		sc := vrScenario{content: "valid", timeout: 60 * time.Millisecond, sbiFailsFrom: 2}
		_, _, err, d := vrRunLive(t, sc)
		if err != nil {
			fmt.Printf("REPLAY-FAIL fn=%s clause=panic input=%s why=unexpected error %v\n", fnTS, sc, err)
			continue
		}
		var cerr error
		if how == "cancel" {
			cerr = d.TransactionCancel(context.Background(), "trans1")
		}
		time.Sleep(200 * time.Millisecond)
		ctx2, cancel2 := context.WithTimeout(context.Background(), 300*time.Millisecond)
		_, err2 := d.TransactionSet(ctx2, "trans2", nil, nil, time.Hour, true)
		cancel2()
		if errors.Is(err2, ErrDatastoreLocked) {
			clause := "never_wedged"
			fns := []string{fnTS, "(*datastore/types.TransactionManager).Cancel", "(*datastore/types.TransactionManager).Rollback"}
			if how == "timer" {
				// the request that opened the transaction is over: the timer has to fire on its own
				fns = append(fns, "(*datastore/types.TransactionCancelTimer).Start$1", "(*datastore/types.TransactionCancelTimer).Start", "(*datastore/types.Transaction).StartRollbackTimer")
			}
			for _, fn := range fns {
				fmt.Printf("REPLAY-FAIL fn=%s clause=%s input=%s,rollbackTimeout=60ms,rollbackFails=true,endedBy=%s (cancel error: %v) why=a TransactionSet after the timeout is refused: the datastore is locked with no timer running\n", fn, clause, sc, how, cerr)
			}
		}
	}
	fmt.Printf("REPLAY-CASES fn=%s n=%d\n", fnTS, n)
	fmt.Printf("REPLAY-CASES fn=%s n=%d\n", fnLL, n/2)
}
