package tree

// Replay adapter / bounded stand-in (injected via `go test -overlay`) for the tree side of C11 on the repository's test
// schema: FilterChilds on one-key and two-key lists, and the tree position -> path reconstruction (SdcpbPath) of every
// leaf that was inserted by path.

import (
	"context"
	"fmt"
	"sort"
	"strings"
	"testing"

	"github.com/sdcio/data-server/mocks/mockcacheclient"
	"github.com/sdcio/data-server/pkg/cache"
	"github.com/sdcio/data-server/pkg/utils"
	"github.com/sdcio/data-server/pkg/utils/testhelper"
	sdcpb "github.com/sdcio/sdc-protos/sdcpb"
	"go.uber.org/mock/gomock"
	"google.golang.org/protobuf/proto"
)

func vrpUpd(p *sdcpb.Path, val string) *cache.Update {
	b, _ := proto.Marshal(&sdcpb.TypedValue{Value: &sdcpb.TypedValue_StringVal{StringVal: val}})
	return cache.NewUpdate(utils.ToStrings(p, false, false), b, 5, "owner1", 0)
}

func vrpPath(elems ...any) *sdcpb.Path {
	p := &sdcpb.Path{}
	for _, e := range elems {
		switch x := e.(type) {
		case string:
			p.Elem = append(p.Elem, &sdcpb.PathElem{Name: x})
		case map[string]string:
			p.Elem[len(p.Elem)-1].Key = x
		}
	}
	return p
}

func TestVerifReplayPaths(t *testing.T) {
	fnF := "(*tree.sharedEntryAttributes).FilterChilds"
	fnP := "(*tree.sharedEntryAttributes).SdcpbPathInternal"
	ctx := context.Background()
	mockCtrl := gomock.NewController(t)
	scb, err := testhelper.GetSchemaClientBound(t, mockCtrl)
	if err != nil {
		t.Fatal(err)
	}
	cacheClient := mockcacheclient.NewMockClient(mockCtrl)
	testhelper.ConfigureCacheClientMock(t, cacheClient, []*cache.Update{}, []*cache.Update{}, []*cache.Update{}, [][]string{})
	root, err := NewTreeRoot(ctx, NewTreeContext(NewTreeCacheClient("dev1", cacheClient), scb, "owner1"))
	if err != nil {
		t.Fatal(err)
	}
	flags := NewUpdateInsertFlags()
	flags.SetNewFlag()
	// key values with the separator characters used internally
	k1s := []string{"a", "a_b", "a/b", "x y", "a=b]"}
	k2s := []string{"b", "a", "c_d"}
	var paths []*sdcpb.Path
	for _, k1 := range k1s {
		for _, k2 := range k2s {
			paths = append(paths, vrpPath("doublekey", map[string]string{"key1": k1, "key2": k2}, "mandato"))
		}
		paths = append(paths, vrpPath("interface", map[string]string{"name": k1}, "description"))
		paths = append(paths, vrpPath("interface", map[string]string{"name": k1}, "subinterface", map[string]string{"index": "1"}, "description"))
	}
	for _, p := range paths {
		if _, err := root.AddCacheUpdateRecursive(ctx, vrpUpd(p, "v"), flags); err != nil {
			t.Fatal(err)
		}
	}
	root.FinishInsertionPhase(ctx)
	// 1. position -> path
	n := 0
	want := map[string]bool{}
	for _, p := range paths {
		want[utils.ToXPath(p, false)] = true
	}
	got := map[string]bool{}
	for _, le := range root.GetHighestPrecedence(false) {
		n++
		sp, err := le.parentEntry.SdcpbPath()
		if err != nil {
			fmt.Printf("REPLAY-FAIL fn=%s clause=panic input=%v why=%v\n", fnP, le.GetPath(), err)
			continue
		}
		got[utils.ToXPath(sp, false)] = true
	}
	for p := range want {
		if !got[p] {
			fmt.Printf("REPLAY-FAIL fn=%s clause=position_names_the_inserted_path input=%s why=the leaf inserted under this path is reported under another one\n", fnP, p)
		}
	}
	for p := range got {
		if !want[p] {
			fmt.Printf("REPLAY-FAIL fn=%s clause=position_names_the_inserted_path input=%s why=no leaf was inserted under this path\n", fnP, p)
		}
	}
	fmt.Printf("REPLAY-CASES fn=%s n=%d\n", fnP, n)
	// 2. FilterChilds
	m := 0
	dk, err := root.Navigate(ctx, []string{"doublekey"}, true)
	if err != nil {
		t.Fatal(err)
	}
	check := func(e Entry, list string, keys map[string]string, wantN int, depth int) {
		m++
		res, err := e.FilterChilds(keys)
		in := fmt.Sprintf("list=%s,keys=%v", list, keys)
		if err != nil {
			fmt.Printf("REPLAY-FAIL fn=%s clause=panic input=%s why=%v\n", fnF, in, err)
			return
		}
		var desc []string
		bad := false
		for _, r := range res {
			d := 0
			var x Entry = r
			for x != nil && x != e {
				x = x.GetParent()
				d++
			}
			desc = append(desc, strings.Join(r.Path(), "/"))
			if x == nil || d != depth {
				bad = true
			}
		}
		sort.Strings(desc)
		if bad {
			fmt.Printf("REPLAY-FAIL fn=%s clause=returns_list_entries_only input=%s why=an entry that is not %d levels below the list is returned: %v\n", fnF, in, depth, desc)
		} else if len(res) != wantN {
			fmt.Printf("REPLAY-FAIL fn=%s clause=matches_every_given_key input=%s why=%d entries returned, %d match: %v\n", fnF, in, len(res), wantN, desc)
		}
	}
	check(dk, "doublekey", nil, len(k1s)*len(k2s), 2)
	check(dk, "doublekey", map[string]string{"key1": "a"}, len(k2s), 2)
	check(dk, "doublekey", map[string]string{"key2": "b"}, len(k1s), 2)
	check(dk, "doublekey", map[string]string{"key1": "a_b", "key2": "c_d"}, 1, 2)
	check(dk, "doublekey", map[string]string{"key1": "a", "key2": "nope"}, 0, 2)
	check(dk, "doublekey", map[string]string{"key1": "nope", "key2": "b"}, 0, 2)
	ifc, err := root.Navigate(ctx, []string{"interface"}, true)
	if err != nil {
		t.Fatal(err)
	}
	check(ifc, "interface", nil, len(k1s), 1)
	check(ifc, "interface", map[string]string{"name": "a/b"}, 1, 1)
	check(ifc, "interface", map[string]string{"name": "zz"}, 0, 1)
	fmt.Printf("REPLAY-CASES fn=%s n=%d\n", fnF, m)
	vrpJoinedKeys(t)
	vrpNavigate(t)
}

// a path with several keys is looked up at the entry it names, however the key map is iterated
func vrpNavigate(t *testing.T) {
	fnN := "(*tree.sharedEntryAttributes).NavigateSdcpbPath"
	ctx := context.Background()
	mockCtrl := gomock.NewController(t)
	scb, err := testhelper.GetSchemaClientBound(t, mockCtrl)
	if err != nil {
		t.Fatal(err)
	}
	cacheClient := mockcacheclient.NewMockClient(mockCtrl)
	testhelper.ConfigureCacheClientMock(t, cacheClient, []*cache.Update{}, []*cache.Update{}, []*cache.Update{}, [][]string{})
	root, err := NewTreeRoot(ctx, NewTreeContext(NewTreeCacheClient("dev1", cacheClient), scb, "owner1"))
	if err != nil {
		t.Fatal(err)
	}
	flags := NewUpdateInsertFlags()
	flags.SetNewFlag()
	for _, kk := range [][2]string{{"x", "y"}, {"y", "x"}} {
		b, _ := proto.Marshal(&sdcpb.TypedValue{Value: &sdcpb.TypedValue_StringVal{StringVal: "m-" + kk[0] + kk[1]}})
		if _, err := root.AddCacheUpdateRecursive(ctx, cache.NewUpdate([]string{"doublekey", kk[0], kk[1], "mandato"}, b, 5, "owner1", 0), flags); err != nil {
			t.Fatal(err)
		}
	}
	root.FinishInsertionPhase(ctx)
	n := 0
	for run := 0; run < 60; run++ {
		n++
		p := vrpPath("doublekey", map[string]string{"key1": "x", "key2": "y"}, "mandato")
		e, err := root.NavigateSdcpbPath(ctx, p.Elem, true)
		if err != nil || strings.Join(e.Path(), "/") != "doublekey/x/y/mandato" {
			got := "<nil>"
			if e != nil {
				got = strings.Join(e.Path(), "/")
			}
			fmt.Printf("REPLAY-FAIL fn=%s clause=lookup_ends_at_the_named_entry input=tree holds doublekey[key1=x][key2=y] and doublekey[key1=y][key2=x], lookup of doublekey[key1=x][key2=y]/mandato (run %d) why=ended at %s (err %v)\n", fnN, run, got, err)
			break
		}
	}
	// a key of type string may be empty: the empty element names that key level like any other value, in both forms of
	// the lookup (only "." and ".." are steps)
	{
		root2, err := NewTreeRoot(ctx, NewTreeContext(NewTreeCacheClient("dev1", cacheClient), scb, "owner1"))
		if err != nil {
			t.Fatal(err)
		}
		for _, kk := range [][2]string{{"", "x"}, {"x", "mandato"}, {"x", ""}} {
			b, _ := proto.Marshal(&sdcpb.TypedValue{Value: &sdcpb.TypedValue_StringVal{StringVal: "m-" + kk[0] + "-" + kk[1]}})
			if _, err := root2.AddCacheUpdateRecursive(ctx, cache.NewUpdate([]string{"doublekey", kk[0], kk[1], "mandato"}, b, 5, "owner1", 0), flags); err != nil {
				t.Fatal(err)
			}
		}
		root2.FinishInsertionPhase(ctx)
		for _, kk := range [][2]string{{"", "x"}, {"x", ""}} {
			n++
			want := "doublekey/" + kk[0] + "/" + kk[1] + "/mandato"
			e, err := root2.NavigateSdcpbPath(ctx, vrpPath("doublekey", map[string]string{"key1": kk[0], "key2": kk[1]}, "mandato").Elem, true)
			if err != nil || e == nil || strings.Join(e.Path(), "/") != want {
				got := "<nil>"
				if e != nil {
					got = strings.Join(e.Path(), "/")
				}
				for _, f := range []string{fnN, "(*tree.sharedEntryAttributes).Navigate"} {
					fmt.Printf("REPLAY-FAIL fn=%s clause=lookup_ends_at_the_named_entry input=tree holds doublekey entries (\"\",x), (x,mandato), (x,\"\"), lookup of doublekey[key1=%q][key2=%q]/mandato why=ended at %s (err %v)\n", f, kk[0], kk[1], got, err)
				}
			}
			n++
			e, err = root2.Navigate(ctx, []string{"doublekey", kk[0], kk[1], "mandato"}, true)
			if err != nil || e == nil || strings.Join(e.Path(), "/") != want {
				got := "<nil>"
				if e != nil {
					got = strings.Join(e.Path(), "/")
				}
				fmt.Printf("REPLAY-FAIL fn=%s clause=lookup_ends_at_the_named_entry input=tree holds doublekey entries (\"\",x), (x,mandato), (x,\"\"), lookup of the element sequence [doublekey %q %q mandato] why=ended at %s (err %v)\n", "(*tree.sharedEntryAttributes).Navigate", kk[0], kk[1], got, err)
			}
		}
		fmt.Printf("REPLAY-CASES fn=%s n=%d\n", "(*tree.sharedEntryAttributes).Navigate", 4)
	}
	// a '.' step stays where it is
	n++
	if e, err := root.NavigateSdcpbPath(ctx, []*sdcpb.PathElem{{Name: "."}, {Name: "doublekey"}}, true); err != nil || e == nil || strings.Join(e.Path(), "/") != "doublekey" {
		fmt.Printf("REPLAY-FAIL fn=%s clause=lookup_ends_at_the_named_entry input=lookup of ./doublekey from the root why=ended at %v (err %v)\n", fnN, e, err)
	}
	fmt.Printf("REPLAY-CASES fn=%s n=%d\n", fnN, n)
}

// joined path keys: two different instance paths are never treated as the same one
func vrpJoinedKeys(t *testing.T) {
	fnA, fnE := "(*tree.PathSet).AddPath", "(*tree.TreeCacheClientImpl).IntendedPathExists"
	// element sequences of schema-valid instance paths (two-key list doublekey, one-key list interface)
	alphabet := []string{"a", "b", "a_b", "b_c", "a_b_c", "_", "a_", "_b", "1", "1_a"}
	var paths [][]string
	for _, x := range alphabet {
		for _, y := range alphabet {
			paths = append(paths, []string{"doublekey", x, y, "mandato"})
		}
		paths = append(paths, []string{"interface", x, "description"})
	}
	n := 0
	ps := NewPathSet()
	for _, p := range paths {
		n++
		ps.AddPath(p)
	}
	have := map[string]bool{}
	for _, p := range ps.GetPaths() {
		have[fmt.Sprintf("%q", []string(p))] = true
	}
	for _, p := range paths {
		if !have[fmt.Sprintf("%q", p)] {
			fmt.Printf("REPLAY-FAIL fn=%s clause=distinct_paths_are_kept input=path=%q why=the path is not in the set after AddPath: another path with the same joined key was added before\n", fnA, p)
			break
		}
	}
	fmt.Printf("REPLAY-CASES fn=%s n=%d\n", fnA, n)
	// the intended store holds only the first path of each colliding pair
	ctx := context.Background()
	m := 0
	for _, pair := range [][2][]string{
		{{"doublekey", "a_b", "c", "mandato"}, {"doublekey", "a", "b_c", "mandato"}},
		{{"doublekey", "a", "b", "mandato"}, {"doublekey", "a", "c", "mandato"}},
		{{"interface", "a_description", "description"}, {"interface", "a", "description_description"}},
	} {
		m++
		mockCtrl := gomock.NewController(t)
		cacheClient := mockcacheclient.NewMockClient(mockCtrl)
		b, _ := proto.Marshal(&sdcpb.TypedValue{Value: &sdcpb.TypedValue_StringVal{StringVal: "v"}})
		stored := []*cache.Update{cache.NewUpdate(pair[0], b, 5, "owner1", 0)}
		testhelper.ConfigureCacheClientMock(t, cacheClient, stored, []*cache.Update{}, []*cache.Update{}, [][]string{})
		tcc := NewTreeCacheClient("dev1", cacheClient)
		for i, p := range pair {
			got, err := tcc.IntendedPathExists(ctx, p)
			if err != nil || got != (i == 0) {
				fmt.Printf("REPLAY-FAIL fn=%s clause=exact_path_only input=stored=%q,asked=%q why=result %v (err %v)\n", fnE, pair[0], p, got, err)
			}
		}
	}
	fmt.Printf("REPLAY-CASES fn=%s n=%d\n", fnE, m)
}

// TestVerifReplayLoadOwner (C02): the former version of an intent is marked for deletion as a whole, also when the store
// hands out a path of it twice (the real cache keeps the superseded copy of a value that was overwritten under the same
// owner and priority). Nothing of a version that is given up survives in the intended store.
func TestVerifReplayLoadOwner(t *testing.T) {
	fn := "(*tree.RootEntry).LoadIntendedStoreOwnerData"
	ctx := context.Background()
	sv := func(s string) []byte {
		b, _ := proto.Marshal(&sdcpb.TypedValue{Value: &sdcpb.TypedValue_StringVal{StringVal: s}})
		return b
	}
	n := 0
	for _, sc := range []struct {
		name   string
		stored []*cache.Update
	}{
		{"every path stored once", []*cache.Update{
			cache.NewUpdate([]string{"interface", "ethernet-1/1", "name"}, sv("ethernet-1/1"), 10, "owner1", 1),
			cache.NewUpdate([]string{"interface", "ethernet-1/1", "description"}, sv("A"), 10, "owner1", 1)}},
		{"the description stored twice (A, then B, the superseded copy still there)", []*cache.Update{
			cache.NewUpdate([]string{"interface", "ethernet-1/1", "name"}, sv("ethernet-1/1"), 10, "owner1", 1),
			cache.NewUpdate([]string{"interface", "ethernet-1/1", "description"}, sv("A"), 10, "owner1", 1),
			cache.NewUpdate([]string{"interface", "ethernet-1/1", "description"}, sv("B"), 10, "owner1", 2)}},
		{"the description stored twice with the same value", []*cache.Update{
			cache.NewUpdate([]string{"interface", "ethernet-1/1", "name"}, sv("ethernet-1/1"), 10, "owner1", 1),
			cache.NewUpdate([]string{"interface", "ethernet-1/1", "description"}, sv("A"), 10, "owner1", 1),
			cache.NewUpdate([]string{"interface", "ethernet-1/1", "description"}, sv("A"), 10, "owner1", 2)}},
	} {
		n++
		mockCtrl := gomock.NewController(t)
		scb, err := testhelper.GetSchemaClientBound(t, mockCtrl)
		if err != nil {
			t.Fatal(err)
		}
		cacheClient := mockcacheclient.NewMockClient(mockCtrl)
		testhelper.ConfigureCacheClientMock(t, cacheClient, sc.stored, []*cache.Update{}, []*cache.Update{}, [][]string{})
		root, err := NewTreeRoot(ctx, NewTreeContext(NewTreeCacheClient("dev1", cacheClient), scb, "owner1"))
		if err != nil {
			t.Fatal(err)
		}
		in := "the intent is given up, former version: " + sc.name
		func() {
			defer func() {
				if r := recover(); r != nil {
					fmt.Printf("REPLAY-FAIL fn=%s clause=panic input=%s panic=%v\n", fn, in, r)
				}
			}()
			if _, err := root.LoadIntendedStoreOwnerData(ctx, "owner1", false); err != nil {
				fmt.Printf("REPLAY-FAIL fn=%s clause=the_former_version_is_marked_as_a_whole_after_loading input=%s why=error %v\n", fn, in, err)
				return
			}
			root.FinishInsertionPhase(ctx)
			var dels []string
			for _, d := range root.GetDeletesForOwner("owner1") {
				dels = append(dels, strings.Join(d, "/"))
			}
			sort.Strings(dels)
			var upds []string
			for _, u := range root.GetUpdatesForOwner("owner1") {
				upds = append(upds, strings.Join(u.GetPath(), "/"))
			}
			if strings.Join(dels, "; ") != "interface/ethernet-1/1/description; interface/ethernet-1/1/name" || len(upds) != 0 {
				fmt.Printf("REPLAY-FAIL fn=%s clause=the_former_version_is_marked_as_a_whole_after_loading input=%s why=the intended store is told to remove [%s] and to write %v: what is not removed survives the intent\n", fn, in, strings.Join(dels, "; "), upds)
			}
		}()
		mockCtrl.Finish()
	}
	fmt.Printf("REPLAY-CASES fn=%s n=%d\n", fn, n)
}
