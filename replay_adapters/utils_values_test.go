package utils

// Replay adapter (injected via `go test -overlay`): executable contracts of the value conversion tables (C12)
// over two sample payloads of every TypedValue kind plus boundary integers.

import (
	"fmt"
	"math"
	"math/big"
	"strconv"
	"strings"
	"testing"
	"time"

	"github.com/openconfig/gnmi/proto/gnmi"
	sdcpb "github.com/sdcio/sdc-protos/sdcpb"
	"google.golang.org/protobuf/proto"
	"google.golang.org/protobuf/types/known/anypb"
	"google.golang.org/protobuf/types/known/emptypb"
)

type vrTV struct {
	kind string
	pay  int
	tv   *sdcpb.TypedValue
}

func vrValues() []vrTV {
	var out []vrTV
	add := func(kind string, pay int, tv *sdcpb.TypedValue) { out = append(out, vrTV{kind, pay, tv}) }
	for p := 0; p < 2; p++ {
		s := fmt.Sprintf("v%d", p)
		add("string", p, &sdcpb.TypedValue{Value: &sdcpb.TypedValue_StringVal{StringVal: s}})
		add("ascii", p, &sdcpb.TypedValue{Value: &sdcpb.TypedValue_AsciiVal{AsciiVal: s}})
		add("int", p, &sdcpb.TypedValue{Value: &sdcpb.TypedValue_IntVal{IntVal: int64(p) - 1}})
		add("uint", p, &sdcpb.TypedValue{Value: &sdcpb.TypedValue_UintVal{UintVal: uint64(p) + 7}})
		add("bool", p, &sdcpb.TypedValue{Value: &sdcpb.TypedValue_BoolVal{BoolVal: p == 1}})
		add("bytes", p, &sdcpb.TypedValue{Value: &sdcpb.TypedValue_BytesVal{BytesVal: []byte(s)}})
		add("float", p, &sdcpb.TypedValue{Value: &sdcpb.TypedValue_FloatVal{FloatVal: float32(p) + 0.5}})
		add("double", p, &sdcpb.TypedValue{Value: &sdcpb.TypedValue_DoubleVal{DoubleVal: float64(p) + 0.25}})
		add("decimal", p, &sdcpb.TypedValue{Value: &sdcpb.TypedValue_DecimalVal{DecimalVal: &sdcpb.Decimal64{Digits: int64(100 + p), Precision: 2}}})
		add("json", p, &sdcpb.TypedValue{Value: &sdcpb.TypedValue_JsonVal{JsonVal: []byte(`{"a":` + strconv.Itoa(p) + `}`)}})
		add("jsonietf", p, &sdcpb.TypedValue{Value: &sdcpb.TypedValue_JsonIetfVal{JsonIetfVal: []byte(`{"a":` + strconv.Itoa(p) + `}`)}})
		add("protobytes", p, &sdcpb.TypedValue{Value: &sdcpb.TypedValue_ProtoBytes{ProtoBytes: []byte(s)}})
		add("identityref", p, &sdcpb.TypedValue{Value: &sdcpb.TypedValue_IdentityrefVal{IdentityrefVal: &sdcpb.IdentityRef{Value: s, Module: "m", Prefix: "p"}}})
		add("any", p, &sdcpb.TypedValue{Value: &sdcpb.TypedValue_AnyVal{AnyVal: &anypb.Any{TypeUrl: "t", Value: []byte(s)}}})
		add("leaflist", p, &sdcpb.TypedValue{Value: &sdcpb.TypedValue_LeaflistVal{LeaflistVal: &sdcpb.ScalarArray{Element: []*sdcpb.TypedValue{{Value: &sdcpb.TypedValue_StringVal{StringVal: s}}}}}})
	}
	add("empty", 0, &sdcpb.TypedValue{Value: &sdcpb.TypedValue_EmptyVal{EmptyVal: &emptypb.Empty{}}})
	add("unset", 0, &sdcpb.TypedValue{})
	return out
}

func TestVerifReplayValues(t *testing.T) {
	vals := vrValues()
	fnEq := "utils.EqualTypedValues"
	n := 0
	clauseOf := map[string]string{"string": "string_kind", "ascii": "ascii_kind", "int": "int_kind", "uint": "uint_kind", "bool": "bool_kind", "float": "float_kind",
		"double": "double_kind", "decimal": "decimal_kind", "bytes": "bytes_kind", "json": "json_kind", "empty": "empty_kind", "identityref": "identityref_kind"}
	for _, a := range vals {
		for _, b := range vals {
			n++
			// a deep copy on one side, so that no pointer is shared (values read from the store are unmarshalled each time)
			got := EqualTypedValues(a.tv, proto.Clone(b.tv).(*sdcpb.TypedValue))
			in := fmt.Sprintf("v1=%s#%d,v2=%s#%d", a.kind, a.pay, b.kind, b.pay)
			if a.kind != b.kind {
				if got {
					fmt.Printf("REPLAY-FAIL fn=%s clause=different_kinds_differ input=%s why=compare equal\n", fnEq, in)
				}
				continue
			}
			want := a.pay == b.pay
			if got != want {
				cl := clauseOf[a.kind]
				if cl == "" {
					cl = a.kind + "_kind"
				}
				fmt.Printf("REPLAY-FAIL fn=%s clause=%s input=%s why=result %v, payloads equal %v\n", fnEq, cl, in, got, want)
			}
		}
	}
	// a negative signed value is never the unsigned value with the same bit pattern
	for _, c := range []struct {
		i int64
		u uint64
	}{{-1, math.MaxUint64}, {-2, math.MaxUint64 - 1}, {math.MinInt64, 1 << 63}, {-1, 1}} {
		n++
		a := &sdcpb.TypedValue{Value: &sdcpb.TypedValue_IntVal{IntVal: c.i}}
		b := &sdcpb.TypedValue{Value: &sdcpb.TypedValue_UintVal{UintVal: c.u}}
		if EqualTypedValues(a, b) || EqualTypedValues(b, a) {
			fmt.Printf("REPLAY-FAIL fn=%s clause=different_kinds_differ input=v1=int %d,v2=uint %d why=compare equal\n", fnEq, c.i, c.u)
		}
	}
	// decimal64: values are compared as numbers, whatever the number of fraction digits they are written with
	for _, c := range []struct {
		d1   int64
		p1   uint32
		d2   int64
		p2   uint32
		same bool
	}{
		{15, 1, 150, 2, true}, {150, 2, 15, 1, true}, {15, 1, 151, 2, false}, {0, 0, 0, 5, true}, {-15, 1, -1500, 3, true}, {-15, 1, 1500, 3, false},
		{1, 0, 1000000000000000000, 18, true}, {2, 0, 1000000000000000000, 18, false}, {15, 1, 15, 2, false}, {15, 0, 15, 0, true},
		{math.MaxInt64, 0, math.MaxInt64, 1, false}, {math.MinInt64, 0, math.MinInt64, 18, false}, {math.MaxInt64, 18, math.MaxInt64, 18, true}, {922337203685477580, 0, 9223372036854775800, 1, true},
	} {
		n++
		mk := func(d int64, p uint32) *sdcpb.TypedValue {
			return &sdcpb.TypedValue{Value: &sdcpb.TypedValue_DecimalVal{DecimalVal: &sdcpb.Decimal64{Digits: d, Precision: p}}}
		}
		in := fmt.Sprintf("v1=decimal64 digits=%d precision=%d,v2=decimal64 digits=%d precision=%d", c.d1, c.p1, c.d2, c.p2)
		func() {
			defer func() {
				if r := recover(); r != nil {
					fmt.Printf("REPLAY-FAIL fn=%s clause=panic input=%s panic=%v\n", fnEq, in, r)
				}
			}()
			if got := EqualTypedValues(mk(c.d1, c.p1), mk(c.d2, c.p2)); got != c.same {
				for _, f := range []string{fnEq, "utils.equalDecimal64", "utils.scaleDecimal64"} {
					fmt.Printf("REPLAY-FAIL fn=%s clause=decimal_kind input=%s why=result %v, the two denote the same number: %v\n", f, in, got, c.same)
				}
			}
		}()
	}
	// a decimal value carries a precision chosen by its sender: neither comparing nor rendering it may take its time
	for _, c := range []struct {
		name string
		f    func() string
		want string
	}{
		{"EqualTypedValues(0 at precision 0, 0 at precision 4294967295)", func() string {
			return fmt.Sprint(EqualTypedValues(&sdcpb.TypedValue{Value: &sdcpb.TypedValue_DecimalVal{DecimalVal: &sdcpb.Decimal64{Digits: 0, Precision: 0}}},
				&sdcpb.TypedValue{Value: &sdcpb.TypedValue_DecimalVal{DecimalVal: &sdcpb.Decimal64{Digits: 0, Precision: math.MaxUint32}}}))
		}, "true"},
		{"EqualTypedValues(1 at precision 0, 1 at precision 4294967295)", func() string {
			return fmt.Sprint(EqualTypedValues(&sdcpb.TypedValue{Value: &sdcpb.TypedValue_DecimalVal{DecimalVal: &sdcpb.Decimal64{Digits: 1, Precision: 0}}},
				&sdcpb.TypedValue{Value: &sdcpb.TypedValue_DecimalVal{DecimalVal: &sdcpb.Decimal64{Digits: 1, Precision: math.MaxUint32}}}))
		}, "false"},
		{"TypedValueToString(1 at precision 4294967295)", func() string {
			return TypedValueToString(&sdcpb.TypedValue{Value: &sdcpb.TypedValue_DecimalVal{DecimalVal: &sdcpb.Decimal64{Digits: 1, Precision: math.MaxUint32}}})
		}, "1e-4294967295"},
		{"TypedValueToString(-15 at precision 18)", func() string {
			return TypedValueToString(&sdcpb.TypedValue{Value: &sdcpb.TypedValue_DecimalVal{DecimalVal: &sdcpb.Decimal64{Digits: -15, Precision: 18}}})
		}, "-0.000000000000000015"},
	} {
		n++
		done := make(chan string, 1)
		go func() {
			defer func() {
				if r := recover(); r != nil {
					done <- fmt.Sprintf("panic: %v", r)
				}
			}()
			done <- c.f()
		}()
		fns := []string{fnEq, "utils.equalDecimal64", "utils.scaleDecimal64"}
		if strings.HasPrefix(c.name, "TypedValueToString") {
			fns = []string{"utils.TypedValueToString"}
		}
		select {
		case got := <-done:
			if got != c.want {
				for _, f := range fns {
					fmt.Printf("REPLAY-FAIL fn=%s clause=decimal_kind input=%s why=result %s, expected %s\n", f, c.name, got, c.want)
				}
			}
		case <-time.After(3 * time.Second):
			for _, f := range fns {
				fmt.Printf("REPLAY-FAIL fn=%s clause=hang input=%s why=no result after 3 s\n", f, c.name)
			}
		}
	}
	fmt.Printf("REPLAY-CASES fn=%s n=%d\n", fnEq, n)
	// TypedValueToString on integer boundaries
	fnStr := "utils.TypedValueToString"
	m := 0
	for _, u := range []uint64{0, 1, math.MaxInt64, math.MaxInt64 + 1, math.MaxUint64} {
		m++
		got := TypedValueToString(&sdcpb.TypedValue{Value: &sdcpb.TypedValue_UintVal{UintVal: u}})
		if got != strconv.FormatUint(u, 10) {
			fmt.Printf("REPLAY-FAIL fn=%s clause=uint_decimal input=uint64=%d why=rendered %q\n", fnStr, u, got)
		}
	}
	for _, i := range []int64{0, -1, math.MinInt64, math.MaxInt64} {
		m++
		got := TypedValueToString(&sdcpb.TypedValue{Value: &sdcpb.TypedValue_IntVal{IntVal: i}})
		if got != strconv.FormatInt(i, 10) {
			fmt.Printf("REPLAY-FAIL fn=%s clause=int_decimal input=int64=%d why=rendered %q\n", fnStr, i, got)
		}
	}
	// decimal64: the rendering is digits * 10^-precision in canonical form (independent big-integer oracle), and parses back
	for _, dg := range []int64{0, 1, -1, 5, -5, 10, -10, 99, -99, 100, -100, 12345, -12345, 1000000, -1000000, math.MaxInt64, math.MinInt64 + 1, math.MinInt64} {
		for prec := uint32(0); prec <= 18; prec++ {
			m++
			got := TypedValueToString(&sdcpb.TypedValue{Value: &sdcpb.TypedValue_DecimalVal{DecimalVal: &sdcpb.Decimal64{Digits: dg, Precision: prec}}})
			abs := new(big.Int).Abs(big.NewInt(dg)).String()
			for len(abs) <= int(prec) {
				abs = "0" + abs
			}
			want := abs
			if prec > 0 {
				want = abs[:len(abs)-int(prec)] + "." + abs[len(abs)-int(prec):]
			}
			if dg < 0 {
				want = "-" + want
			}
			in := fmt.Sprintf("decimal64{digits=%d,precision=%d}", dg, prec)
			if got != want {
				fmt.Printf("REPLAY-FAIL fn=%s clause=decimal_canonical input=%s why=rendered %q, the value is %q\n", fnStr, in, got, want)
				continue
			}
			back, err := ParseDecimal64(got)
			if err != nil || back == nil || back.Digits != dg || back.Precision != prec {
				fmt.Printf("REPLAY-FAIL fn=%s clause=decimal_round_trip input=%s why=rendered %q parses back to %v (err %v)\n", fnStr, in, got, back, err)
			}
		}
	}
	fmt.Printf("REPLAY-CASES fn=%s n=%d\n", fnStr, m)
	// inbound decimal64: string and JSON forms convert to the value they denote (digits * 10^-precision), never panic
	vrDecimalInbound()
	vrIdentityrefInbound()
	vrTextInbound()
	// integer text (device XML, defaults, union members): decimal only, leading zeros do not change the value
	{
		k := 0
		for _, c := range []struct {
			typ, text string
			ok        bool
			want      int64
		}{
			{"uint8", "10", true, 10}, {"uint8", "010", true, 10}, {"uint16", "0100", true, 100}, {"uint8", "0", true, 0}, {"uint8", "255", true, 255}, {"uint8", "256", false, 0},
			{"uint8", "0x10", false, 0}, {"uint8", "0b11", false, 0}, {"uint8", "1_0", false, 0}, {"uint32", "08", true, 8},
			{"int8", "-010", true, -10}, {"int8", "-128", true, -128}, {"int8", "-129", false, 0}, {"int32", "00017", true, 17}, {"int16", "0x10", false, 0}, {"int64", "-9223372036854775808", true, -9223372036854775808},
		} {
			k++
			fnC := "(*utils.URnges).IsWithinAnyRangeString"
			if strings.HasPrefix(c.typ, "int") {
				fnC = "(*utils.SRnges).IsWithinAnyRangeString"
			}
			func() {
				defer func() {
					if r := recover(); r != nil {
						fmt.Printf("REPLAY-FAIL fn=%s clause=panic input=%s from text %q panic=%v\n", fnC, c.typ, c.text, r)
					}
				}()
				tv, err := Convert(c.text, &sdcpb.SchemaLeafType{Type: c.typ, TypeName: c.typ})
				if (err == nil && tv != nil) != c.ok {
					fmt.Printf("REPLAY-FAIL fn=%s clause=decimal_text input=%s from text %q why=result %v err %v, valid decimal in range: %v\n", fnC, c.typ, c.text, tv, err, c.ok)
					return
				}
				if c.ok {
					got := int64(tv.GetUintVal())
					if strings.HasPrefix(c.typ, "int") {
						got = tv.GetIntVal()
					}
					if got != c.want {
						fmt.Printf("REPLAY-FAIL fn=%s clause=decimal_text input=%s from text %q why=converted to %d\n", fnC, c.typ, c.text, got)
					}
				}
			}()
		}
		fmt.Printf("REPLAY-CASES fn=%s n=%d\n", "(*utils.URnges).IsWithinAnyRangeString", k)
		fmt.Printf("REPLAY-CASES fn=%s n=%d\n", "(*utils.SRnges).IsWithinAnyRangeString", k)
	}
	// ConvertString with schema patterns, including XSD-only syntax that Go cannot compile: an error, never a panic
	{
		fnS := "utils.ConvertString"
		k := 0
		for _, pat := range []string{"[0-9]+", `[\i-[:]][\c-[:]]*`, `\p{IsBasicLatin}+`, "(", ""} {
			for _, val := range []string{"", "abc", "123"} {
				k++
				func() {
					defer func() {
						if r := recover(); r != nil {
							fmt.Printf("REPLAY-FAIL fn=%s clause=panic input=pattern=%q,value=%q panic=%v\n", fnS, pat, val, r)
						}
					}()
					ConvertString(val, &sdcpb.SchemaLeafType{Type: "string", Patterns: []*sdcpb.SchemaPattern{{Pattern: pat}}})
				}()
			}
		}
		fmt.Printf("REPLAY-CASES fn=%s n=%d\n", fnS, k)
	}
	// ToGNMITypedValue: every set kind has a gNMI rendering
	fnG := "utils.ToGNMITypedValue"
	g := 0
	for _, a := range vals {
		if a.kind == "unset" {
			continue
		}
		g++
		if ToGNMITypedValue(a.tv) == nil {
			cl := "non_nil_for_every_kind"
			switch a.kind {
			case "decimal", "float", "double", "empty":
				cl += ".known"
			}
			fmt.Printf("REPLAY-FAIL fn=%s clause=%s input=kind=%s why=nil result: the value is dropped from the gNMI SetRequest\n", fnG, cl, a.kind)
		}
	}
	fmt.Printf("REPLAY-CASES fn=%s n=%d\n", fnG, g)
	// FromGNMITypedValue: what a gNMI device reports keeps its datum
	fnF := "utils.FromGNMITypedValue"
	f := 0
	for _, c := range []struct {
		name string
		in   *gnmi.TypedValue
		want string
	}{
		{"decimal 1.5", &gnmi.TypedValue{Value: &gnmi.TypedValue_DecimalVal{DecimalVal: &gnmi.Decimal64{Digits: 15, Precision: 1}}}, "1.5"},
		{"decimal -0.25", &gnmi.TypedValue{Value: &gnmi.TypedValue_DecimalVal{DecimalVal: &gnmi.Decimal64{Digits: -25, Precision: 2}}}, "-0.25"},
		{"double 2.5", &gnmi.TypedValue{Value: &gnmi.TypedValue_DoubleVal{DoubleVal: 2.5}}, "double:2.5"},
		{"float 2.5", &gnmi.TypedValue{Value: &gnmi.TypedValue_FloatVal{FloatVal: 2.5}}, "double:2.5"},
		{"uint 18446744073709551615", &gnmi.TypedValue{Value: &gnmi.TypedValue_UintVal{UintVal: math.MaxUint64}}, "18446744073709551615"},
		{"int -9223372036854775808", &gnmi.TypedValue{Value: &gnmi.TypedValue_IntVal{IntVal: math.MinInt64}}, "-9223372036854775808"},
		{"string", &gnmi.TypedValue{Value: &gnmi.TypedValue_StringVal{StringVal: "x"}}, "x"},
		{"bool", &gnmi.TypedValue{Value: &gnmi.TypedValue_BoolVal{BoolVal: true}}, "true"},
	} {
		f++
		got := FromGNMITypedValue(c.in)
		var have string
		switch {
		case got == nil:
			have = "<nil>"
		case got.GetValue() == nil:
			have = "<no value>"
		default:
			if _, isD := got.GetValue().(*sdcpb.TypedValue_DoubleVal); isD {
				have = "double:" + strconv.FormatFloat(got.GetDoubleVal(), 'g', -1, 64)
			} else {
				have = TypedValueToString(got)
			}
		}
		if have != c.want {
			fmt.Printf("REPLAY-FAIL fn=%s clause=datum_is_kept input=gNMI %s why=converted to %s\n", fnF, c.name, have)
		}
	}
	fmt.Printf("REPLAY-CASES fn=%s n=%d\n", fnF, f)
	// ConvertTypedValueToYANGType: the whole range of the 64-bit integer types
	fnY := "utils.ConvertTypedValueToYANGType"
	y := 0
	for _, c := range []struct {
		typ  string
		in   *sdcpb.TypedValue
		want string
	}{
		{"uint64", &sdcpb.TypedValue{Value: &sdcpb.TypedValue_UintVal{UintVal: math.MaxUint64}}, "18446744073709551615"},
		{"uint64", &sdcpb.TypedValue{Value: &sdcpb.TypedValue_StringVal{StringVal: "9223372036854775808"}}, "9223372036854775808"},
		{"int64", &sdcpb.TypedValue{Value: &sdcpb.TypedValue_IntVal{IntVal: math.MinInt64}}, "-9223372036854775808"},
		{"uint8", &sdcpb.TypedValue{Value: &sdcpb.TypedValue_StringVal{StringVal: "7"}}, "7"},
	} {
		y++
		got, err := ConvertTypedValueToYANGType(&sdcpb.SchemaElem{Schema: &sdcpb.SchemaElem_Field{Field: &sdcpb.LeafSchema{Name: "l", Type: &sdcpb.SchemaLeafType{Type: c.typ}}}}, c.in)
		if err != nil || TypedValueToString(got) != c.want {
			fmt.Printf("REPLAY-FAIL fn=%s clause=datum_is_kept input=%s leaf, value %s why=converted to %v (err %v)\n", fnY, c.typ, TypedValueToString(c.in), got, err)
		}
	}
	fmt.Printf("REPLAY-CASES fn=%s n=%d\n", fnY, y)
}

// vrIdentityrefInbound: an identity spelled unqualified, with the YANG prefix (XML, YANG text) or with the module name
// (JSON_IETF) is one value: the identity with the prefix and the module the schema gives for it
func vrIdentityrefInbound() {
	lt := &sdcpb.SchemaLeafType{Type: "identityref", TypeName: "identityref",
		IdentityPrefixesMap: map[string]string{"des3": "crypt", "aes": "crypt", "other": "oth"},
		ModulePrefixMap:     map[string]string{"des3": "crypto-types", "aes": "crypto-types", "other": "other-types"}}
	type conv struct {
		fn string
		f  func(v string) (*sdcpb.TypedValue, error)
	}
	for _, c := range []conv{
		{"utils.convertStringToTv", func(v string) (*sdcpb.TypedValue, error) { return convertStringToTv(lt, v, 0) }},
		{"utils.Convert", func(v string) (*sdcpb.TypedValue, error) { return Convert(v, lt) }},
		{"utils.ConvertJsonValueToTv", func(v string) (*sdcpb.TypedValue, error) { return ConvertJsonValueToTv(v, lt) }},
	} {
		n := 0
		for _, id := range []string{"des3", "aes", "other"} {
			var first *sdcpb.TypedValue
			for _, spelling := range []string{id, lt.IdentityPrefixesMap[id] + ":" + id, lt.ModulePrefixMap[id] + ":" + id} {
				n++
				tv, err := c.f(spelling)
				if err != nil {
					fmt.Printf("REPLAY-FAIL fn=%s clause=identityref_carries_the_prefix_and_module_of_the_schema input=identityref from %q why=refused: %v\n", c.fn, spelling, err)
					continue
				}
				ir := tv.GetIdentityrefVal()
				if ir == nil || ir.Value != id || ir.Prefix != lt.IdentityPrefixesMap[id] || ir.Module != lt.ModulePrefixMap[id] {
					fmt.Printf("REPLAY-FAIL fn=%s clause=identityref_carries_the_prefix_and_module_of_the_schema input=identityref from %q why=converted to %v, the schema says value=%s prefix=%s module=%s\n", c.fn, spelling, tv, id, lt.IdentityPrefixesMap[id], lt.ModulePrefixMap[id])
					continue
				}
				if first == nil {
					first = tv
				} else if !EqualTypedValues(first, tv) {
					fmt.Printf("REPLAY-FAIL fn=%s clause=identityref_carries_the_prefix_and_module_of_the_schema input=identityref from %q why=%v and %v denote the same identity and compare different\n", c.fn, spelling, first, tv)
				}
			}
		}
		for _, bad := range []string{"nope", "crypt:nope", ""} {
			n++
			if tv, err := c.f(bad); err == nil && tv.GetIdentityrefVal() != nil {
				fmt.Printf("REPLAY-FAIL fn=%s clause=identityref_carries_the_prefix_and_module_of_the_schema input=identityref from %q why=an identity the schema does not know is accepted: %v\n", c.fn, bad, tv)
			}
		}
		fmt.Printf("REPLAY-CASES fn=%s n=%d\n", c.fn, n)
	}
}

// vrTextInbound: text from a NETCONF device / an XML document to typed values
func vrTextInbound() {
	num := func(v uint64, neg bool) *sdcpb.Number { return &sdcpb.Number{Value: v, Negative: neg} }
	// an int64 leaf whose range statement uses min / max: the bounds are the ends of the type
	fnI := "utils.ConvertSdcpbNumberToInt64"
	n := 0
	lt := &sdcpb.SchemaLeafType{Type: "int64", TypeName: "int64", Range: []*sdcpb.SchemaMinMaxType{{Min: num(1<<63, true), Max: num(10, false)}}}
	for _, c := range []struct {
		v  string
		ok bool
	}{{"5", true}, {"-9223372036854775808", true}, {"10", true}, {"-1", true}} {
		n++
		tv, err := Convert(c.v, lt)
		if (err == nil) != c.ok || (c.ok && TypedValueToString(tv) != c.v) {
			for _, f := range []string{fnI, "utils.Convert", "utils.ConvertInt64"} {
				fmt.Printf("REPLAY-FAIL fn=%s clause=everything_an_int64_holds_converts input=int64 leaf with range \"min..10\", value %q why=converted to %v, err %v\n", f, c.v, tv, err)
			}
		}
	}
	for _, c := range []struct {
		m    *sdcpb.Number
		want int64
		ok   bool
	}{{num(1<<63, true), math.MinInt64, true}, {num(1<<63, false), 0, false}, {num(1<<63-1, false), math.MaxInt64, true}, {num(1<<63+1, true), 0, false}, {num(0, true), 0, true}, {num(7, true), -7, true}} {
		n++
		got, err := ConvertSdcpbNumberToInt64(c.m)
		if (err == nil) != c.ok || (c.ok && got != c.want) {
			fmt.Printf("REPLAY-FAIL fn=%s clause=the_signed_number input=value=%d,negative=%v why=converted to %d, err %v\n", fnI, c.m.Value, c.m.Negative, got, err)
		}
	}
	fmt.Printf("REPLAY-CASES fn=%s n=%d\n", fnI, n)
	// the length statement counts characters
	fnS := "utils.ConvertString"
	k := 0
	ls := &sdcpb.SchemaLeafType{Type: "string", TypeName: "string", Length: []*sdcpb.SchemaMinMaxType{{Min: num(3, false), Max: num(5, false)}}}
	for _, c := range []struct {
		v  string
		ok bool
	}{{"abc", true}, {"äöü", true}, {"äöüäö", true}, {"ää", false}, {"äöüäöü", false}, {"abcdef", false}, {"ab", false}} {
		k++
		tv, err := Convert(c.v, ls)
		if (err == nil) != c.ok || (c.ok && tv.GetStringVal() != c.v) {
			for _, f := range []string{fnS, "utils.Convert"} {
				fmt.Printf("REPLAY-FAIL fn=%s clause=length_counts_characters input=string leaf with length \"3..5\", value %q why=converted to %v, err %v\n", f, c.v, tv, err)
			}
		}
	}
	fmt.Printf("REPLAY-CASES fn=%s n=%d\n", fnS, k)
	// the text of a string-like leaf is the value, blanks and line ends at its ends included; in a union whose string
	// member follows a number member, a padded number stays the text it is
	kc := 0
	union := &sdcpb.SchemaLeafType{Type: "union", TypeName: "union", UnionTypes: []*sdcpb.SchemaLeafType{{Type: "uint8", TypeName: "uint8"}, {Type: "string", TypeName: "string"}}}
	for _, typ := range []*sdcpb.SchemaLeafType{{Type: "string", TypeName: "string"}, {Type: "leafref", TypeName: "leafref"}, {Type: "binary", TypeName: "binary"}, {Type: "instance-identifier", TypeName: "instance-identifier"}, union} {
		for _, text := range []string{"Authorized access only\n", " x", "x ", " ", "\t7", " 7", "plain"} {
			kc++
			tv, err := Convert(text, typ)
			if err != nil || tv == nil || tv.GetStringVal() != text {
				for _, f := range []string{"utils.Convert", fnS} {
					fmt.Printf("REPLAY-FAIL fn=%s clause=the_text_of_a_string_like_leaf_is_handed_on_as_it_came input=%s leaf, text %q why=converted to %v, err %v\n", f, typ.Type, text, tv, err)
				}
			}
		}
	}
	fmt.Printf("REPLAY-CASES fn=%s n=%d\n", "utils.Convert", kc)
	// a leafref without a resolved target type: an error, not a crash
	fnJ := "utils.ConvertJsonValueToTv"
	func() {
		defer func() {
			if r := recover(); r != nil {
				fmt.Printf("REPLAY-FAIL fn=%s clause=panic input=leafref without a target type, JSON value \"abc\" panic=%v\n", fnJ, r)
			}
		}()
		if tv, err := ConvertJsonValueToTv("abc", &sdcpb.SchemaLeafType{Type: "leafref"}); err == nil && tv != nil && tv.Value != nil {
			fmt.Printf("REPLAY-FAIL fn=%s clause=panic input=leafref without a target type, JSON value \"abc\" why=converted to %v\n", fnJ, tv)
		}
	}()
}

func vrDecimalInbound() {
	lt := &sdcpb.SchemaLeafType{Type: "decimal64", TypeName: "decimal64"}
	type conv struct {
		fn string
		f  func(v string) (*sdcpb.TypedValue, error)
	}
	convs := []conv{
		{"utils.convertStringToTv", func(v string) (*sdcpb.TypedValue, error) { return convertStringToTv(lt, v, 0) }},
		{"utils.Convert", func(v string) (*sdcpb.TypedValue, error) { return Convert(v, lt) }},
		{"utils.ConvertJsonValueToTv", func(v string) (*sdcpb.TypedValue, error) { return ConvertJsonValueToTv(v, lt) }},
	}
	values := []string{"0", "5", "-5", "1.25", "-1.25", "-0.5", "0.05", "-0.000000000000000001", "9223372036854775807", "-9223372036854775808", "922337203685477580.7", ".5", "1.", "", "abc", "1.2.3", "--1", "1e3", " 7 "}
	for _, c := range convs {
		n := 0
		for _, v := range values {
			n++
			want, valid := new(big.Rat).SetString(strings.TrimSpace(v))
			if strings.ContainsAny(v, "eE/") {
				valid = false
			}
			func() {
				defer func() {
					if r := recover(); r != nil {
						fmt.Printf("REPLAY-FAIL fn=%s clause=panic input=decimal64 from %q panic=%v\n", c.fn, v, r)
					}
				}()
				tv, err := c.f(v)
				if err != nil {
					if valid {
						fmt.Printf("REPLAY-FAIL fn=%s clause=decimal_denotes_the_input input=decimal64 from %q why=refused: %v\n", c.fn, v, err)
					}
					return
				}
				d := tv.GetDecimalVal()
				if d == nil {
					fmt.Printf("REPLAY-FAIL fn=%s clause=decimal_denotes_the_input input=decimal64 from %q why=typed value %v carries no decimal\n", c.fn, v, tv)
					return
				}
				got := new(big.Rat).SetFrac(big.NewInt(d.Digits), new(big.Int).Exp(big.NewInt(10), big.NewInt(int64(d.Precision)), nil))
				if !valid || got.Cmp(want) != 0 {
					fmt.Printf("REPLAY-FAIL fn=%s clause=decimal_denotes_the_input input=decimal64 from %q why=converted to digits=%d precision=%d (= %s)\n", c.fn, v, d.Digits, d.Precision, got.FloatString(20))
					return
				}
				// and it can be rendered again
				_ = TypedValueToString(tv)
			}()
		}
		fmt.Printf("REPLAY-CASES fn=%s n=%d\n", c.fn, n)
	}
	// JSON documents carry decimal64 as a number as well
	fnJ := "utils.ConvertJsonValueToTv"
	m := 0
	for _, d := range []any{1.5, -0.25, float64(3), 3, nil, true, []any{}, map[string]any{}} {
		m++
		func() {
			defer func() {
				if r := recover(); r != nil {
					fmt.Printf("REPLAY-FAIL fn=%s clause=panic input=decimal64 from JSON %T(%v) panic=%v\n", fnJ, d, d, r)
				}
			}()
			tv, err := ConvertJsonValueToTv(d, lt)
			if f, ok := d.(float64); ok && err == nil {
				dv := tv.GetDecimalVal()
				got := new(big.Rat).SetFrac(big.NewInt(dv.GetDigits()), new(big.Int).Exp(big.NewInt(10), big.NewInt(int64(dv.GetPrecision())), nil))
				if want := new(big.Rat).SetFloat64(f); dv == nil || got.Cmp(want) != 0 {
					fmt.Printf("REPLAY-FAIL fn=%s clause=decimal_denotes_the_input input=decimal64 from JSON number %v why=converted to %v\n", fnJ, f, tv)
				}
			}
		}()
	}
	fmt.Printf("REPLAY-CASES fn=%s n=%d\n", fnJ, m)
}
