package tree

// Replay adapter (injected via `go test -overlay`): executable contract of the choice-case resolver (C08) over all
// resolvers with up to 3 cases of up to 2 elements each and priority values from {unset(MaxInt32), 5, 7}.

import (
	"fmt"
	"math"
	"testing"
)

func TestVerifReplayChoiceResolver(t *testing.T) {
	vals := []int32{math.MaxInt32, 5, 7}
	fn := "(*tree.choiceCasesResolver).getBestCaseName"
	fnS := "(*tree.choiceCasesResolver).GetSkipElements"
	n := 0
	caseNames := []string{"c1", "c2", "c3"}
	var rec func(ci int, cfg [][]int32)
	check := func(cfg [][]int32) {
		n++
		r := newChoiceCasesResolver()
		lowest := map[string]int32{}
		for i, elems := range cfg {
			var names []string
			for j := range elems {
				names = append(names, fmt.Sprintf("%s-e%d", caseNames[i], j))
			}
			r.AddCase(caseNames[i], names)
			lo := int32(math.MaxInt32)
			for j, v := range elems {
				r.SetValue(names[j], v, false)
				if v < lo {
					lo = v
				}
			}
			lowest[caseNames[i]] = lo
		}
		in := fmt.Sprint(cfg)
		best := r.getBestCaseName()
		anyPop := false
		for _, lo := range lowest {
			if lo < math.MaxInt32 {
				anyPop = true
			}
		}
		if !anyPop && best != "" {
			fmt.Printf("REPLAY-FAIL fn=%s clause=none_when_nothing_populated input=cases=%s why=best case %q although no element carries a value\n", fn, in, best)
		}
		if anyPop && best == "" {
			fmt.Printf("REPLAY-FAIL fn=%s clause=some_when_populated input=cases=%s why=no best case\n", fn, in)
		}
		if best != "" && anyPop {
			for name, lo := range lowest {
				if lo < lowest[best] {
					fmt.Printf("REPLAY-FAIL fn=%s clause=best_case_wins input=cases=%s why=%s has a better value than %s\n", fn, in, name, best)
				}
			}
		}
		// skip elements are exactly the members of the other cases (checked when the best case is unique:
		// equal values in two cases make the winner depend on map iteration order)
		uniq := best != ""
		for name, lo := range lowest {
			if name != best && best != "" && lo == lowest[best] {
				uniq = false
			}
		}
		if !uniq {
			return
		}
		skip := map[string]bool{}
		for _, e := range r.GetSkipElements() {
			skip[e] = true
		}
		for elem, cas := range r.elementToCaseMapping {
			if (cas != best) != skip[elem] {
				fmt.Printf("REPLAY-FAIL fn=%s clause=exact input=cases=%s why=element %s of case %s skip=%v best=%q\n", fnS, in, elem, cas, skip[elem], best)
			}
		}
	}
	rec = func(ci int, cfg [][]int32) {
		if ci > 0 {
			check(cfg)
		}
		if ci == 3 {
			return
		}
		for _, a := range vals {
			rec(ci+1, append(append([][]int32{}, cfg...), []int32{a}))
			for _, b := range vals {
				rec(ci+1, append(append([][]int32{}, cfg...), []int32{a, b}))
			}
		}
	}
	rec(0, nil)
	fmt.Printf("REPLAY-CASES fn=%s n=%d\n", fn, n)
	fmt.Printf("REPLAY-CASES fn=%s n=%d\n", fnS, n)
}
