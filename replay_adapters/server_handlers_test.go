package server

// Replay adapter (injected by /verif/bin/gvc via `go test -overlay`; never written into /repo).
// Bounded stand-in for the handler part of C20: the real gRPC handlers are called with a grid of protobuf-valid requests
// (optional parts present or absent) on a server that holds no datastore; every call has to come back, with an error
// or a response, and none may panic. Requests that would reach datastore.New (a complete, valid target) are not in
// the grid: they dial the device.

import (
	"context"
	"fmt"
	"google.golang.org/grpc/codes"
	"google.golang.org/grpc/status"
	"net"
	"sync"
	"testing"

	"github.com/sdcio/data-server/pkg/config"
	"github.com/sdcio/data-server/pkg/datastore"
	sdcpb "github.com/sdcio/sdc-protos/sdcpb"
	"google.golang.org/grpc/peer"
)

func vrsServer() *Server {
	return &Server{config: &config.Config{}, ctx: context.Background(), md: &sync.RWMutex{}, datastores: map[string]*datastore.Datastore{}}
}

func vrsCall(fn, in string, counts map[string]int, f func()) {
	counts[fn]++
	defer func() {
		if r := recover(); r != nil {
			fmt.Printf("REPLAY-FAIL fn=%s clause=panic input=%s panic=%v\n", fn, in, r)
		}
	}()
	f()
}

func TestVerifReplayHandlers(t *testing.T) {
	counts := map[string]int{}
	ctx := peer.NewContext(context.Background(), &peer.Peer{Addr: &net.TCPAddr{IP: net.IPv4(127, 0, 0, 1), Port: 1}})
	schema := &sdcpb.Schema{Name: "sdcio", Vendor: "sdcio", Version: "v0.0.0"}
	// CreateDataStore: name x schema x datastore x target (type x protocol options x tls x credentials) x sync
	for _, name := range []string{"", "ds1"} {
		for _, withSchema := range []bool{false, true} {
			for _, dsKind := range []string{"none", "candidate", "candidate-no-owner", "main"} {
				for _, ttype := range []string{"absent", "", "netconf", "NETCONF", "gnmi", "noop", "other"} {
					for _, opts := range []string{"none", "netconf", "gnmi"} {
						for _, extras := range []bool{false, true} {
							for _, sync := range []string{"none", "empty", "gnmi", "netconf", "other", "no-target"} {
								req := &sdcpb.CreateDataStoreRequest{Name: name}
								if withSchema {
									req.Schema = schema
								}
								switch dsKind {
								case "candidate":
									req.Datastore = &sdcpb.DataStore{Type: sdcpb.Type_CANDIDATE, Name: "c1", Owner: "me"}
								case "candidate-no-owner":
									req.Datastore = &sdcpb.DataStore{Type: sdcpb.Type_CANDIDATE, Name: "c1"}
								case "main":
									req.Datastore = &sdcpb.DataStore{Type: sdcpb.Type_MAIN}
								}
								if ttype != "absent" {
									// no address: the configuration check turns every such target down before anything is dialled
									req.Target = &sdcpb.Target{Type: ttype}
									switch opts {
									case "netconf":
										req.Target.ProtocolOptions = &sdcpb.Target_NetconfOpts{NetconfOpts: &sdcpb.NetconfOptions{IncludeNs: true}}
									case "gnmi":
										req.Target.ProtocolOptions = &sdcpb.Target_GnmiOpts{GnmiOpts: &sdcpb.GnmiOptions{Encoding: "json"}}
									}
									if extras {
										req.Target.Tls = &sdcpb.TLS{SkipVerify: true}
										req.Target.Credentials = &sdcpb.Credentials{Username: "u"}
									}
								}
								switch sync {
								case "empty":
									req.Sync = &sdcpb.Sync{}
								case "gnmi", "netconf", "other":
									req.Sync = &sdcpb.Sync{Config: []*sdcpb.SyncConfig{{Name: "s", Target: &sdcpb.Target{Type: sync}, Path: []string{"/"}}}}
								case "no-target":
									req.Sync = &sdcpb.Sync{Config: []*sdcpb.SyncConfig{{Name: "s"}}}
								}
								in := fmt.Sprintf("name=%q,schema=%v,datastore=%s,targetType=%s,protocolOptions=%s,tlsAndCredentials=%v,sync=%s", name, withSchema, dsKind, ttype, opts, extras, sync)
								vrsCall("(*server.Server).CreateDataStore", in, counts, func() {
									s := vrsServer()
									s.CreateDataStore(ctx, req)
									if len(s.datastores) != 0 {
										fmt.Printf("REPLAY-FAIL fn=%s clause=panic input=%s why=a datastore was created from a target without an address\n", "(*server.Server).CreateDataStore", in)
									}
								})
							}
						}
					}
				}
			}
		}
	}
	// the handlers that look a datastore up: missing and unknown names, absent optional parts
	for _, name := range []string{"", "nosuch"} {
		in := fmt.Sprintf("name=%q", name)
		vrsCall("(*server.Server).GetDataStore", in, counts, func() { vrsServer().GetDataStore(ctx, &sdcpb.GetDataStoreRequest{Name: name}) })
		vrsCall("(*server.Server).DeleteDataStore", in, counts, func() { vrsServer().DeleteDataStore(ctx, &sdcpb.DeleteDataStoreRequest{Name: name}) })
		vrsCall("(*server.Server).DeleteDataStore", in+",datastore=candidate", counts, func() {
			vrsServer().DeleteDataStore(ctx, &sdcpb.DeleteDataStoreRequest{Name: name, Datastore: &sdcpb.DataStore{Type: sdcpb.Type_CANDIDATE, Name: "c"}})
		})
		vrsCall("(*server.Server).Discard", in, counts, func() { vrsServer().Discard(ctx, &sdcpb.DiscardRequest{Name: name}) })
		vrsCall("(*server.Server).TransactionSet", in, counts, func() { vrsServer().TransactionSet(ctx, &sdcpb.TransactionSetRequest{DatastoreName: name}) })
		vrsCall("(*server.Server).TransactionSet", in+",intents", counts, func() {
			vrsServer().TransactionSet(ctx, &sdcpb.TransactionSetRequest{DatastoreName: name, Intents: []*sdcpb.TransactionIntent{{Intent: "i"}}, ReplaceIntent: &sdcpb.TransactionIntent{}})
		})
		// the names under which the tree keeps the device's values, the defaults and the replace content are refused
		// before the datastore is touched (the registered datastore is an empty one: reaching into it would crash)
		for _, reserved := range []string{"running", "default", "replace"} {
			vrsCall("(*server.Server).TransactionSet", in+",intent named "+reserved, counts, func() {
				srv := vrsServer()
				srv.datastores[name] = &datastore.Datastore{}
				_, err := srv.TransactionSet(ctx, &sdcpb.TransactionSetRequest{DatastoreName: name, TransactionId: "t", Intents: []*sdcpb.TransactionIntent{{Intent: reserved, Priority: 10}}})
				if name != "" && status.Code(err) != codes.InvalidArgument {
					fmt.Printf("REPLAY-FAIL fn=%s clause=reserved_intent_names_are_refused input=%s,intent named %s why=answered %v\n", "(*server.Server).TransactionSet", in, reserved, err)
				}
			})
		}
		// an intent with content and without a priority (0, which the stores would keep as the lowest one) is refused
		// before the datastore is touched
		vrsCall("(*server.Server).TransactionSet", in+",intent without a priority", counts, func() {
			srv := vrsServer()
			srv.datastores[name] = &datastore.Datastore{}
			_, err := srv.TransactionSet(ctx, &sdcpb.TransactionSetRequest{DatastoreName: name, TransactionId: "t", Intents: []*sdcpb.TransactionIntent{{Intent: "i", Priority: 0,
				Update: []*sdcpb.Update{{Path: &sdcpb.Path{Elem: []*sdcpb.PathElem{{Name: "patterntest"}}}, Value: &sdcpb.TypedValue{Value: &sdcpb.TypedValue_StringVal{StringVal: "hallo 00"}}}}}}})
			if name != "" && status.Code(err) != codes.InvalidArgument {
				fmt.Printf("REPLAY-FAIL fn=%s clause=an_intent_with_content_needs_a_priority input=%s,intent i with priority 0 why=answered %v\n", "(*server.Server).TransactionSet", in, err)
			}
		})
		vrsCall("(*server.Server).TransactionSet", in+",intent with a negative priority", counts, func() {
			srv := vrsServer()
			srv.datastores[name] = &datastore.Datastore{}
			_, err := srv.TransactionSet(ctx, &sdcpb.TransactionSetRequest{DatastoreName: name, TransactionId: "t", Intents: []*sdcpb.TransactionIntent{{Intent: "i", Priority: -5,
				Update: []*sdcpb.Update{{Path: &sdcpb.Path{Elem: []*sdcpb.PathElem{{Name: "patterntest"}}}, Value: &sdcpb.TypedValue{Value: &sdcpb.TypedValue_StringVal{StringVal: "hallo 00"}}}}}}})
			if name != "" && status.Code(err) != codes.InvalidArgument {
				fmt.Printf("REPLAY-FAIL fn=%s clause=an_intent_with_content_needs_a_priority input=%s,intent i with priority -5 why=answered %v\n", "(*server.Server).TransactionSet", in, err)
			}
		})
		vrsCall("(*server.Server).TransactionConfirm", in, counts, func() { vrsServer().TransactionConfirm(ctx, &sdcpb.TransactionConfirmRequest{DatastoreName: name}) })
		vrsCall("(*server.Server).TransactionCancel", in, counts, func() { vrsServer().TransactionCancel(ctx, &sdcpb.TransactionCancelRequest{DatastoreName: name}) })
	}
	vrsCall("(*server.Server).ListDataStore", "no datastore", counts, func() { vrsServer().ListDataStore(ctx, &sdcpb.ListDataStoreRequest{}) })
	// Subscribe: whatever the sample interval, what is handed on fits a time.Duration and a ticker takes it
	for _, iv := range []uint64{0, 1, uint64(1e9), 1 << 62, 1<<63 - 1, 1 << 63, 1<<64 - 1} {
		in := fmt.Sprintf("name=nosuch,sample_interval=%d", iv)
		vrsCall("(*server.Server).Subscribe", in, counts, func() {
			req := &sdcpb.SubscribeRequest{Name: "nosuch", Subscription: []*sdcpb.Subscription{{SampleInterval: iv}, {SampleInterval: iv}}}
			vrsServer().Subscribe(req, nil)
			for _, sub := range req.GetSubscription() {
				if got := sub.GetSampleInterval(); got > 1<<63-1 || got < uint64(1e9) {
					fmt.Printf("REPLAY-FAIL fn=%s clause=panic input=%s why=the interval handed to the datastore is %d: as a time.Duration it is not positive, the ticker of the subscription panics in its own goroutine\n", "(*server.Server).Subscribe", in, got)
				}
			}
		})
	}
	for fn, n := range counts {
		fmt.Printf("REPLAY-CASES fn=%s n=%d\n", fn, n)
	}
}
