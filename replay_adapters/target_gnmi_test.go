package target

// Replay adapter (injected by /verif/bin/gvc via `go test -overlay`; never written into /repo).
// Bounded stand-in for the gNMI part of C09 / C10: the real gnmiTarget.Set, in front of a recording gNMI client, is
// handed real trees (pkg/tree) built the way a transaction builds them: the stored intent, running, and the new revision
// of the intent. A revision that is identical to the stored one has to produce an empty SetRequest in every encoding;
// a revision that only removes something produces deletes and no update; a revision that changes a value produces an
// update.

import (
	"context"
	"fmt"
	"strings"
	"testing"

	"github.com/openconfig/gnmi/proto/gnmi"
	gtarget "github.com/openconfig/gnmic/pkg/target"
	"github.com/openconfig/gnmic/pkg/types"
	"github.com/openconfig/ygot/ygot"
	"github.com/sdcio/data-server/mocks/mockcacheclient"
	"github.com/sdcio/data-server/pkg/cache"
	"github.com/sdcio/data-server/pkg/config"
	"github.com/sdcio/data-server/pkg/tree"
	"github.com/sdcio/data-server/pkg/utils"
	"github.com/sdcio/data-server/pkg/utils/testhelper"
	sdcio_schema "github.com/sdcio/data-server/tests/sdcioygot"
	sdcpb "github.com/sdcio/sdc-protos/sdcpb"
	"go.uber.org/mock/gomock"
	"google.golang.org/grpc"
	"google.golang.org/protobuf/proto"
)

type vrgClient struct {
	gnmi.GNMIClient
	reqs []*gnmi.SetRequest
}

func (c *vrgClient) Set(_ context.Context, in *gnmi.SetRequest, _ ...grpc.CallOption) (*gnmi.SetResponse, error) {
	c.reqs = append(c.reqs, in)
	return &gnmi.SetResponse{}, nil
}

func vrgConf(descr string, second bool) *sdcio_schema.Device {
	d := &sdcio_schema.Device{
		Interface: map[string]*sdcio_schema.SdcioModel_Interface{
			"ethernet-1/1": {Name: ygot.String("ethernet-1/1"), Description: ygot.String(descr)},
		},
		Leaflist: &sdcio_schema.SdcioModel_Leaflist{Entry: []string{"a", "b"}},
		Choices:  &sdcio_schema.SdcioModel_Choices{Case2: &sdcio_schema.SdcioModel_Choices_Case2{Log: ygot.Bool(true)}},
	}
	if second {
		d.Interface["ethernet-1/2"] = &sdcio_schema.SdcioModel_Interface{Name: ygot.String("ethernet-1/2"), Description: ygot.String("x")}
	}
	return d
}

func vrgUpdates(t *testing.T, ctx context.Context, conv *utils.Converter, conf *sdcio_schema.Device, owner string, prio int32) []*cache.Update {
	js, err := ygot.EmitJSON(conf, &ygot.EmitJSONConfig{Format: ygot.RFC7951, SkipValidation: true})
	if err != nil {
		t.Fatal(err)
	}
	upds, err := conv.ExpandUpdate(ctx, &sdcpb.Update{Path: &sdcpb.Path{}, Value: &sdcpb.TypedValue{Value: &sdcpb.TypedValue_JsonVal{JsonVal: []byte(js)}}}, true)
	if err != nil {
		t.Fatal(err)
	}
	var out []*cache.Update
	for _, u := range upds {
		b, _ := proto.Marshal(u.GetValue())
		out = append(out, cache.NewUpdate(utils.ToStrings(u.GetPath(), false, false), b, prio, owner, 0))
	}
	return out
}

func vrgAdd(t *testing.T, ctx context.Context, root *tree.RootEntry, upds []*cache.Update, flags *tree.UpdateInsertFlags) {
	for _, u := range upds {
		if _, err := root.AddCacheUpdateRecursive(ctx, u, flags); err != nil {
			t.Fatal(err)
		}
	}
}

func TestVerifReplayGnmiSet(t *testing.T) {
	fn := "(*datastore/target.gnmiTarget).Set"
	ctx := context.Background()
	n := 0
	bare := func() *sdcio_schema.Device {
		d := vrgConf("d", true)
		d.Choices = nil // the presence container /choices/case2 is added as an entry of its own below (ygot drops empty containers)
		return d
	}
	scenarios := []struct {
		name            string
		stored, revised *sdcio_schema.Device
		wantUpd         string // none | some
		wantDel         string // none | some
	}{
		{"intent with a bare presence container re-applied unchanged, running (synced from the device) has no entry for the container itself", bare(), bare(), "none", "none"},
		{"intent re-applied unchanged", vrgConf("d", true), vrgConf("d", true), "none", "none"},
		{"list entry removed from the intent", vrgConf("d", true), vrgConf("d", false), "none", "some"},
		{"leaf value changed", vrgConf("d", true), vrgConf("e", true), "some", "none"},
	}
	for _, sc := range scenarios {
		for _, enc := range []string{"proto", "json", "json_ietf", "JSON"} {
			n++
			ctrl := gomock.NewController(t)
			scb, err := testhelper.GetSchemaClientBound(t, ctrl)
			if err != nil {
				t.Fatal(err)
			}
			conv := utils.NewConverter(scb)
			stored := vrgUpdates(t, ctx, conv, sc.stored, "owner1", 5)
			presence := func(owner string, prio int32) *cache.Update {
				b, _ := proto.Marshal(&sdcpb.TypedValue{Value: &sdcpb.TypedValue_EmptyVal{}})
				return cache.NewUpdate([]string{"choices", "case2"}, b, prio, owner, 0)
			}
			isBare := strings.Contains(sc.name, "bare presence container")
			if isBare {
				stored = append(stored, presence("owner1", 5))
			}
			cc := mockcacheclient.NewMockClient(ctrl)
			testhelper.ConfigureCacheClientMock(t, cc, stored, nil, nil, nil)
			tc := tree.NewTreeContext(tree.NewTreeCacheClient("dev1", cc), scb, "owner1")
			root, err := tree.NewTreeRoot(ctx, tc)
			if err != nil {
				t.Fatal(err)
			}
			plain, flagNew := tree.NewUpdateInsertFlags(), tree.NewUpdateInsertFlags()
			flagNew.SetNewFlag()
			// as a transaction does: the stored version of the intent (loaded and marked for deletion), the new revision, running
			if _, err := root.LoadIntendedStoreOwnerData(ctx, "owner1", false); err != nil {
				t.Fatal(err)
			}
			revised := vrgUpdates(t, ctx, conv, sc.revised, "owner1", 5)
			if isBare {
				revised = append(revised, presence("owner1", 5))
			}
			vrgAdd(t, ctx, root, revised, flagNew)
			running := vrgUpdates(t, ctx, conv, sc.stored, tree.RunningIntentName, tree.RunningValuesPrio)
			if strings.Contains(sc.name, "bare presence container") {
				// a sync from the device reports leafs, not the containers themselves
				var leafs []*cache.Update
				for _, u := range running {
					if tv, _ := u.Value(); tv.GetEmptyVal() == nil {
						leafs = append(leafs, u)
					}
				}
				running = leafs
			}
			vrgAdd(t, ctx, root, running, plain)
			root.FinishInsertionPhase(ctx)

			client := &vrgClient{}
			gt := gtarget.NewTarget(&types.TargetConfig{Name: "dev1", Address: "127.0.0.1:1"})
			gt.Client = client
			g := &gnmiTarget{target: gt, encodings: map[gnmi.Encoding]struct{}{gnmi.Encoding_JSON: {}}, cfg: &config.SBI{GnmiOptions: &config.SBIGnmiOptions{Encoding: enc}}}
			in := fmt.Sprintf("scenario=%s,encoding=%s", sc.name, enc)
			func() {
				defer func() {
					if r := recover(); r != nil {
						fmt.Printf("REPLAY-FAIL fn=%s clause=panic input=%s panic=%v\n", fn, in, r)
					}
				}()
				if _, err := g.Set(ctx, root); err != nil {
					fmt.Printf("REPLAY-FAIL fn=%s clause=panic input=%s why=unexpected error %v\n", fn, in, err)
					return
				}
				if len(client.reqs) != 1 {
					fmt.Printf("REPLAY-FAIL fn=%s clause=success_sends_once input=%s why=%d requests\n", fn, in, len(client.reqs))
					return
				}
				req := client.reqs[0]
				nu, nd := len(req.GetUpdate())+len(req.GetReplace()), len(req.GetDelete())
				if sc.wantUpd == "none" && nu != 0 && strings.Contains(sc.name, "bare presence container") && enc == "proto" {
					// recorded finding: the proto rendering re-sends a presence container whose own entry running does not hold
					fmt.Printf("REPLAY-FAIL fn=%s clause=nothing_to_update_sends_no_update.known input=%s why=%d update(s) sent although no value is new or changed: %v\n", fn, in, nu, req.GetUpdate())
				} else if sc.wantUpd == "none" && nu != 0 {
					fmt.Printf("REPLAY-FAIL fn=%s clause=nothing_to_update_sends_no_update input=%s why=%d update(s) sent although no value is new or changed: %v\n", fn, in, nu, req.GetUpdate())
				}
				if sc.wantUpd == "some" && nu == 0 {
					fmt.Printf("REPLAY-FAIL fn=%s clause=forwards_all_proto_updates input=%s why=no update sent although a value changed\n", fn, in)
				}
				if sc.wantDel == "none" && nd != 0 {
					fmt.Printf("REPLAY-FAIL fn=%s clause=forwards_all_deletes input=%s why=%d delete(s) sent although nothing was removed: %v\n", fn, in, nd, req.GetDelete())
				}
				if sc.wantDel == "some" && nd == 0 {
					fmt.Printf("REPLAY-FAIL fn=%s clause=forwards_all_deletes input=%s why=no delete sent although an entry was removed\n", fn, in)
				}
			}()
		}
	}
	fmt.Printf("REPLAY-CASES fn=%s n=%d\n", fn, n)
}
