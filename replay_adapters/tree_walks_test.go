package tree

// Replay adapter (injected via `go test -overlay`): the owner walks GetByOwner / markOwnerDelete over trees in which a
// presence container carries an entry of its own and has children (C02, C01).

import (
	"context"
	"fmt"
	"testing"

	"github.com/sdcio/data-server/mocks/mockcacheclient"
	"github.com/sdcio/data-server/pkg/cache"
	"github.com/sdcio/data-server/pkg/utils/testhelper"
	sdcpb "github.com/sdcio/sdc-protos/sdcpb"
	"go.uber.org/mock/gomock"
	"google.golang.org/protobuf/proto"
	"google.golang.org/protobuf/types/known/emptypb"
)

func TestVerifReplayWalks(t *testing.T) {
	fnG, fnM := "(*tree.sharedEntryAttributes).GetByOwner", "(*tree.sharedEntryAttributes).markOwnerDelete"
	ctx := context.Background()
	strV, _ := proto.Marshal(&sdcpb.TypedValue{Value: &sdcpb.TypedValue_StringVal{StringVal: "v"}})
	boolV, _ := proto.Marshal(&sdcpb.TypedValue{Value: &sdcpb.TypedValue_BoolVal{BoolVal: true}})
	emptyV, _ := proto.Marshal(&sdcpb.TypedValue{Value: &sdcpb.TypedValue_EmptyVal{EmptyVal: &emptypb.Empty{}}})
	type upd struct {
		path []string
		val  []byte
	}
	scenarios := map[string][]upd{
		"leaves only":                      {{[]string{"interface", "e1", "description"}, strV}, {[]string{"patterntest"}, strV}},
		"bare presence container":          {{[]string{"choices", "case2"}, emptyV}},
		"presence container with children": {{[]string{"choices", "case2"}, emptyV}, {[]string{"choices", "case2", "log"}, boolV}},
		"nested under a list entry":        {{[]string{"interface", "e1", "name"}, strV}, {[]string{"interface", "e1", "subinterface", "1", "description"}, strV}, {[]string{"interface", "e1", "description"}, strV}},
	}
	n := 0
	for name, upds := range scenarios {
		for _, withOther := range []bool{false, true} {
			n++
			mockCtrl := gomock.NewController(t)
			scb, err := testhelper.GetSchemaClientBound(t, mockCtrl)
			if err != nil {
				t.Fatal(err)
			}
			cacheClient := mockcacheclient.NewMockClient(mockCtrl)
			testhelper.ConfigureCacheClientMock(t, cacheClient, []*cache.Update{}, []*cache.Update{}, []*cache.Update{}, [][]string{})
			root, err := NewTreeRoot(ctx, NewTreeContext(NewTreeCacheClient("dev1", cacheClient), scb, "owner1"))
			if err != nil {
				t.Fatal(err)
			}
			flags := NewUpdateInsertFlags()
			for _, u := range upds {
				if _, err := root.AddCacheUpdateRecursive(ctx, cache.NewUpdate(u.path, u.val, 5, "owner1", 0), flags); err != nil {
					t.Fatal(err)
				}
				if withOther {
					if _, err := root.AddCacheUpdateRecursive(ctx, cache.NewUpdate(u.path, u.val, 9, "owner2", 0), flags); err != nil {
						t.Fatal(err)
					}
				}
			}
			in := fmt.Sprintf("tree=%s,secondOwner=%v,owner=owner1", name, withOther)
			got := root.GetByOwner("owner1", []*LeafEntry{})
			if len(got) != len(upds) {
				var ps []string
				for _, le := range got {
					ps = append(ps, fmt.Sprint(le.GetPath()))
				}
				fmt.Printf("REPLAY-FAIL fn=%s clause=children_are_always_visited input=%s why=%d entries of the owner in the tree, %d collected: %v\n", fnG, in, len(upds), len(got), ps)
			}
			root.markOwnerDelete("owner1", false)
			marked := 0
			for _, le := range root.GetByOwner("owner1", []*LeafEntry{}) {
				if le.GetDeleteFlag() {
					marked++
				}
			}
			// count through an independent walk as well
			all := 0
			var walk func(e Entry)
			walk = func(e Entry) {
				var sea *sharedEntryAttributes
				switch x := e.(type) {
				case *sharedEntryAttributes:
					sea = x
				case *EntryImpl:
					sea = x.sharedEntryAttributes
				}
				if le := sea.leafVariants.GetByOwner("owner1"); le != nil {
					all++
					if !le.GetDeleteFlag() {
						fmt.Printf("REPLAY-FAIL fn=%s clause=children_are_always_visited input=%s why=entry %v of the owner is not flagged for deletion\n", fnM, in, le.GetPath())
					}
				}
				for _, c := range e.getChildren() {
					walk(c)
				}
			}
			walk(root.sharedEntryAttributes)
			if all != len(upds) {
				fmt.Printf("REPLAY-FAIL fn=%s clause=panic input=%s why=adapter: %d entries found by the independent walk, %d inserted\n", fnM, in, all, len(upds))
			}
			_ = marked
		}
	}
	fmt.Printf("REPLAY-CASES fn=%s n=%d\n", fnG, n)
	fmt.Printf("REPLAY-CASES fn=%s n=%d\n", fnM, n)
}
