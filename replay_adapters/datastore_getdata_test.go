package datastore

// Replay adapter / bounded stand-in (injected via `go test -overlay`) for C14: the real Datastore.Get over a mocked
// cache whose prefix read matches element by element (what the property demands of the whole chain), a real schema
// client over the test schema: the leaves returned are exactly the stored leaves at or below the requested paths, in
// every encoding, and invalid requests fail with an error and no data.

import (
	"context"
	"encoding/json"
	"fmt"
	"google.golang.org/grpc"
	"regexp"
	"sort"
	"strings"
	"sync"
	"testing"
	"time"

	"github.com/sdcio/cache/proto/cachepb"
	"github.com/sdcio/data-server/mocks/mockcacheclient"
	"github.com/sdcio/data-server/pkg/cache"
	"github.com/sdcio/data-server/pkg/config"
	schemaClient "github.com/sdcio/data-server/pkg/datastore/clients/schema"
	"github.com/sdcio/data-server/pkg/utils"
	"github.com/sdcio/data-server/pkg/utils/testhelper"
	sdcpb "github.com/sdcio/sdc-protos/sdcpb"
	"go.uber.org/mock/gomock"
	"google.golang.org/protobuf/proto"
)

func vrgCovers(req, stored []string) bool {
	if len(req) > len(stored) {
		return false
	}
	for i := range req {
		if req[i] != stored[i] {
			return false
		}
	}
	return true
}

// vrgUnder: is the stored element sequence at or below the requested path? Decided by key NAMES (the lists of the test
// schema and their key statements), so a key the request leaves out selects every value of it.
func vrgUnder(p *sdcpb.Path, stored []string) bool {
	listKeys := map[string][]string{"interface": {"name"}, "subinterface": {"index"}, "doublekey": {"key1", "key2"}, "network-instance": {"name"}}
	i := 0
	for _, pe := range p.GetElem() {
		if i >= len(stored) || stored[i] != pe.GetName() {
			return false
		}
		i++
		if len(pe.GetKey()) == 0 {
			continue
		}
		for _, k := range listKeys[pe.GetName()] {
			if i >= len(stored) {
				return false
			}
			if v, given := pe.GetKey()[k]; given && v != stored[i] && !vrgGlob(v, stored[i]) {
				return false
			}
			i++
		}
	}
	return true
}

// vrgGlob: a '*' in a requested key value stands for any run of characters (the oracle's own matcher, written
// without regexp: prefix, inner pieces in order, suffix)
func vrgGlob(pattern, s string) bool {
	if !strings.Contains(pattern, "*") {
		return false
	}
	parts := strings.Split(pattern, "*")
	if !strings.HasPrefix(s, parts[0]) {
		return false
	}
	s = s[len(parts[0]):]
	for _, p := range parts[1 : len(parts)-1] {
		i := strings.Index(s, p)
		if i < 0 {
			return false
		}
		s = s[i+len(p):]
	}
	return strings.HasSuffix(s, parts[len(parts)-1])
}

// a key leaf of the last list entry of a path: ...[key=value]/key=value
var vrgKeyLeaf = regexp.MustCompile(`\[([^=\]]+)=([^\]]*)\]/([^/=\[]+)=(.*)$`)

func vrgFlatten(prefix string, v any, out *[]string) {
	switch x := v.(type) {
	case map[string]any:
		for k, c := range x {
			if i := strings.Index(k, ":"); i >= 0 {
				k = k[i+1:]
			}
			vrgFlatten(prefix+"/"+k, c, out)
		}
	case []any:
		for _, c := range x {
			if m, ok := c.(map[string]any); ok {
				// the keys of the entry, by the list's name (last element of the prefix), in the order ToXPath prints them
				ln := prefix[strings.LastIndex(prefix, "/")+1:]
				ks := map[string][]string{"interface": {"name"}, "subinterface": {"index"}, "doublekey": {"key1", "key2"}, "network-instance": {"name"}}[ln]
				if len(ks) == 0 {
					ks = []string{"name"}
				}
				ep := prefix
				for _, k := range ks {
					ep += fmt.Sprintf("[%s=%v]", k, m[k])
				}
				vrgFlatten(ep, c, out)
			}
		}
	default:
		*out = append(*out, fmt.Sprintf("%s=%v", strings.TrimPrefix(prefix, "/"), v))
	}
}

func TestVerifReplayGetData(t *testing.T) {
	fn := "(*datastore.Datastore).Get"
	sv := func(s string) []byte {
		b, _ := proto.Marshal(&sdcpb.TypedValue{Value: &sdcpb.TypedValue_StringVal{StringVal: s}})
		return b
	}
	var stored []*cache.Update
	for _, ifn := range []string{"ethernet-1/1", "ethernet-1/10", "ethernet-1/2"} {
		stored = append(stored, cache.NewUpdate([]string{"interface", ifn, "name"}, sv(ifn), 0, "", 0))
		stored = append(stored, cache.NewUpdate([]string{"interface", ifn, "description"}, sv("d-"+ifn), 0, "", 0))
	}
	// the device runs case2 of /choices while an intent holds a leaf of case1: what is stored is what is returned
	bv, _ := proto.Marshal(&sdcpb.TypedValue{Value: &sdcpb.TypedValue_BoolVal{BoolVal: true}})
	stored = append(stored, cache.NewUpdate([]string{"choices", "case2", "log"}, bv, 0, "", 0))
	intended := []*cache.Update{cache.NewUpdate([]string{"choices", "case1", "case-elem", "elem"}, sv("v"), 5, "x", 0)}
	// two entries of a two-key list: (a,b) and (b,c)
	for _, kk := range [][2]string{{"a", "b"}, {"b", "c"}} {
		stored = append(stored, cache.NewUpdate([]string{"doublekey", kk[0], kk[1], "key1"}, sv(kk[0]), 0, "", 0),
			cache.NewUpdate([]string{"doublekey", kk[0], kk[1], "key2"}, sv(kk[1]), 0, "", 0),
			cache.NewUpdate([]string{"doublekey", kk[0], kk[1], "mandato"}, sv("m-"+kk[0]+kk[1]), 0, "", 0))
	}
	// two intents hold the description of ethernet-1/1 in the intended store
	intended = append(intended,
		cache.NewUpdate([]string{"interface", "ethernet-1/1", "name"}, sv("ethernet-1/1"), 10, "owner1", 0),
		cache.NewUpdate([]string{"interface", "ethernet-1/1", "description"}, sv("of owner1"), 10, "owner1", 0),
		cache.NewUpdate([]string{"interface", "ethernet-1/1", "name"}, sv("ethernet-1/1"), 5, "owner2", 0),
		cache.NewUpdate([]string{"interface", "ethernet-1/1", "description"}, sv("of owner2"), 5, "owner2", 0))
	ifPath := func(n string) *sdcpb.Path {
		return &sdcpb.Path{Elem: []*sdcpb.PathElem{{Name: "interface", Key: map[string]string{"name": n}}}}
	}
	requests := map[string][]*sdcpb.Path{
		"one entry": {ifPath("ethernet-1/1")},
		"two entries, one key a prefix of the other":              {ifPath("ethernet-1/1"), ifPath("ethernet-1/10")},
		"the same, other order":                                   {ifPath("ethernet-1/10"), ifPath("ethernet-1/1")},
		"entry and a leaf below it":                               {ifPath("ethernet-1/2"), {Elem: []*sdcpb.PathElem{{Name: "interface", Key: map[string]string{"name": "ethernet-1/2"}}, {Name: "description"}}}},
		"whole list":                                              {{Elem: []*sdcpb.PathElem{{Name: "interface"}}}},
		"container with a choice, an intent holds the other case": {{Elem: []*sdcpb.PathElem{{Name: "choices"}}}},
		"intended: the entries of one intent, another intent holds the same leaf": {ifPath("ethernet-1/1")},
		"two-key list, both keys":                                            {{Elem: []*sdcpb.PathElem{{Name: "doublekey", Key: map[string]string{"key1": "a", "key2": "b"}}}}},
		"two-key list, only the second key (= b)":                            {{Elem: []*sdcpb.PathElem{{Name: "doublekey", Key: map[string]string{"key2": "b"}}}}},
		"unknown path":                                                       {{Elem: []*sdcpb.PathElem{{Name: "nosuchthing"}}}},
		"unknown key name of a list":                                         {{Elem: []*sdcpb.PathElem{{Name: "interface", Key: map[string]string{"nme": "ethernet-1/1"}}, {Name: "description"}}}},
		"a key on a plain container":                                         {{Elem: []*sdcpb.PathElem{{Name: "choices", Key: map[string]string{"x": "y"}}}}},
		"state data of a named (candidate) datastore, which holds none":      {ifPath("ethernet-1/1")},
		"state data of the intended datastore, which holds none":             {ifPath("ethernet-1/1")},
		"wildcard key, a leaf of every entry":                                {{Elem: []*sdcpb.PathElem{{Name: "interface", Key: map[string]string{"name": "*"}}, {Name: "description"}}}},
		"wildcard inside a key value":                                        {{Elem: []*sdcpb.PathElem{{Name: "interface", Key: map[string]string{"name": "ethernet-1/1*"}}, {Name: "description"}}}},
		"two-key list, wildcard for the first key":                           {{Elem: []*sdcpb.PathElem{{Name: "doublekey", Key: map[string]string{"key1": "*", "key2": "c"}}}}},
		"an entry in the middle of the stream holds bytes that are no value": {{Elem: []*sdcpb.PathElem{{Name: "interface"}}}},
	}
	requests["two list entries, one of them stored without its key leaf"] = []*sdcpb.Path{ifPath("ethernet-1/2")}
	// (only for the request above) sub-entries of ethernet-1/2: 0 without its key leaf, 7 with it
	uv := func(u uint64) []byte {
		b, _ := proto.Marshal(&sdcpb.TypedValue{Value: &sdcpb.TypedValue_UintVal{UintVal: u}})
		return b
	}
	noKeyLeaf := []*cache.Update{
		cache.NewUpdate([]string{"interface", "ethernet-1/2", "subinterface", "0", "description"}, sv("sub0"), 0, "", 0),
		cache.NewUpdate([]string{"interface", "ethernet-1/2", "subinterface", "7", "index"}, uv(7), 0, "", 0),
		cache.NewUpdate([]string{"interface", "ethernet-1/2", "subinterface", "7", "description"}, sv("sub7"), 0, "", 0),
	}
	// (only for the request above) an entry between the healthy ones whose stored bytes do not decode
	broken := cache.NewUpdate([]string{"interface", "ethernet-1/10", "description"}, []byte{0xff, 0xff, 0xff}, 0, "", 0)
	n := 0
	for rname, paths := range requests {
		for _, enc := range []sdcpb.Encoding{sdcpb.Encoding_STRING, sdcpb.Encoding_PROTO, sdcpb.Encoding_JSON, sdcpb.Encoding_JSON_IETF} {
			n++
			ctrl := gomock.NewController(t)
			cc := mockcacheclient.NewMockClient(ctrl)
			reads := 0
			cc.EXPECT().ReadCh(gomock.Any(), gomock.Any(), gomock.Any(), gomock.Any(), gomock.Any()).AnyTimes().DoAndReturn(
				func(_ context.Context, _ string, opts *cache.Opts, ps [][]string, _ time.Duration) chan *cache.Update {
					reads++
					ch := make(chan *cache.Update, 100)
					if opts.Store == cachepb.Store_INTENDED {
						// the cache's read semantics: owner and priority select together (priority > 0); without a priority the
						// best priority of each path comes back, whoever owns it
						best := map[string]int32{}
						for _, u := range intended {
							k := strings.Join(u.GetPath(), "\x00")
							if b, ok := best[k]; !ok || u.Priority() < b {
								best[k] = u.Priority()
							}
						}
						for _, u := range intended {
							for _, p := range ps {
								if !vrgCovers(p, u.GetPath()) {
									continue
								}
								if opts.Priority > 0 && (u.Priority() != opts.Priority || (opts.Owner != "" && u.Owner() != opts.Owner)) {
									continue
								}
								if opts.Priority == 0 && u.Priority() != best[strings.Join(u.GetPath(), "\x00")] {
									continue
								}
								ch <- u
								break
							}
						}
					}
					if opts.Store == cachepb.Store_CONFIG {
						seen := map[string]bool{}
						src := stored
						if strings.HasPrefix(rname, "an entry in the middle") {
							src = append(append(append([]*cache.Update{}, stored[:3]...), broken), stored[4:]...)
						}
						if strings.HasPrefix(rname, "two list entries, one of them stored without") {
							src = append(append([]*cache.Update{}, stored...), noKeyLeaf...)
						}
						for _, u := range src {
							for _, p := range ps {
								k := strings.Join(u.GetPath(), "\x00")
								// the config store of the cache matches the requested path as a prefix of the stored key, without
								// a delimiter behind it: interface,ethernet-1/1 also matches interface,ethernet-1/10,...
								// ... and a '*' in the requested key is a pattern (".*")
								hit := strings.HasPrefix(strings.Join(u.GetPath(), ","), strings.Join(p, ","))
								if jp := strings.Join(p, ","); strings.Contains(jp, "*") {
									hit, _ = regexp.MatchString("^"+strings.ReplaceAll(regexp.QuoteMeta(jp), `\*`, ".*"), strings.Join(u.GetPath(), ","))
								}
								if hit && !seen[k] {
									seen[k] = true
									ch <- u
								}
							}
						}
					}
					close(ch)
					return ch
				})
			testhelper.ConfigureCacheClientMock(t, cc, intended, nil, nil, nil)
			scl, schema, err := testhelper.InitSDCIOSchema()
			if err != nil {
				t.Fatal(err)
			}
			d := &Datastore{config: &config.DatastoreConfig{Name: "dev1", Schema: schema, Validation: &config.Validation{DisableConcurrency: true}}, cacheClient: cc,
				schemaClient: schemaClient.NewSchemaClientBound(schema.GetSchema(), scl), m: &sync.RWMutex{}, md: &sync.RWMutex{}}
			var want []string
			src := stored
			dstore := &sdcpb.DataStore{Type: sdcpb.Type_MAIN}
			if strings.HasPrefix(rname, "intended:") {
				dstore = &sdcpb.DataStore{Type: sdcpb.Type_INTENDED, Owner: "owner1", Priority: 10}
				src = nil
				for _, u := range intended {
					if u.Owner() == "owner1" && u.Priority() == 10 {
						src = append(src, u)
					}
				}
			}
			for _, u := range src {
				for _, p := range paths {
					if vrgUnder(p, u.GetPath()) {
						sp, _ := d.schemaClient.ToPath(context.Background(), u.GetPath())
						tv, _ := u.Value()
						want = append(want, utils.ToXPath(sp, false)+"="+utils.TypedValueToString(tv))
						break
					}
				}
			}
			out := make(chan *sdcpb.GetDataResponse, 100)
			ctx, cancel := context.WithTimeout(context.Background(), 2*time.Second)
			func() {
				defer func() {
					if r := recover(); r != nil {
						err = fmt.Errorf("panic: %v", r)
						fmt.Printf("REPLAY-FAIL fn=%s clause=panic input=request=%s,encoding=%s panic=%v\n", fn, rname, enc, r)
						for _, f := range []string{"(*datastore.Datastore).handleGetDataUpdatesJSON", "tree.getListEntrySortFunc"} {
							fmt.Printf("REPLAY-FAIL fn=%s clause=panic input=request=%s,encoding=%s panic=%v\n", f, rname, enc, r)
						}
						close(out)
					}
				}()
				dataType := sdcpb.DataType_CONFIG
				if strings.HasPrefix(rname, "state data of a named") {
					dataType = sdcpb.DataType_STATE
					dstore = &sdcpb.DataStore{Type: sdcpb.Type_MAIN, Name: "cand"}
				}
				if strings.HasPrefix(rname, "state data of the intended") {
					dataType = sdcpb.DataType_STATE
					dstore = &sdcpb.DataStore{Type: sdcpb.Type_INTENDED, Owner: "owner1", Priority: 10}
				}
				err = d.Get(ctx, &sdcpb.GetDataRequest{Name: "dev1", Path: paths, DataType: dataType, Encoding: enc, Datastore: dstore}, out)
			}()
			cancel()
			var got []string
			for rsp := range out {
				for _, nt := range rsp.GetNotification() {
					for _, u := range nt.GetUpdate() {
						switch {
						case u.GetValue().GetJsonVal() != nil || u.GetValue().GetJsonIetfVal() != nil:
							b := u.GetValue().GetJsonVal()
							if b == nil {
								b = u.GetValue().GetJsonIetfVal()
							}
							var v any
							json.Unmarshal(b, &v)
							vrgFlatten(utils.ToXPath(u.GetPath(), false), v, &got)
						default:
							got = append(got, utils.ToXPath(u.GetPath(), false)+"="+utils.TypedValueToString(u.GetValue()))
						}
					}
				}
			}
			if enc == sdcpb.Encoding_JSON || enc == sdcpb.Encoding_JSON_IETF {
				// a JSON list entry is written with its key leaves, requested or not: they are the entry's name in that
				// encoding, not leaves outside the requested paths
				inWant := map[string]bool{}
				for _, w := range want {
					inWant[w] = true
				}
				kept := got[:0]
				for _, g := range got {
					if m := vrgKeyLeaf.FindStringSubmatch(g); m != nil && m[1] == m[3] && m[2] == m[4] && !inWant[g] {
						continue
					}
					kept = append(kept, g)
				}
				got = kept
			}
			sort.Strings(want)
			sort.Strings(got)
			in := fmt.Sprintf("request=%s,encoding=%s", rname, enc)
			reader := map[sdcpb.Encoding]string{sdcpb.Encoding_STRING: "(*datastore.Datastore).handleGetDataUpdatesSTRING", sdcpb.Encoding_PROTO: "(*datastore.Datastore).handleGetDataUpdatesPROTO",
				sdcpb.Encoding_JSON: "(*datastore.Datastore).handleGetDataUpdatesJSON", sdcpb.Encoding_JSON_IETF: "(*datastore.Datastore).handleGetDataUpdatesJSON"}[enc]
			if strings.HasPrefix(rname, "two list entries, one of them stored without") {
				// (what the JSON reader adds for the missing key leaf is not compared here: an answer, not a crash)
				if err != nil || len(got) == 0 {
					fmt.Printf("REPLAY-FAIL fn=%s clause=requestedPaths input=%s why=err=%v, %d leaves returned\n", fn, in, err, len(got))
				}
				continue
			}
			if strings.HasPrefix(rname, "an entry in the middle") {
				// a request that cannot be answered in full fails, it does not pass for a shorter answer
				if err == nil {
					fmt.Printf("REPLAY-FAIL fn=%s clause=requestedPaths input=%s why=no error, %d leaves returned although one stored entry cannot be read\n", fn, in, len(got))
					fmt.Printf("REPLAY-FAIL fn=%s clause=success_answers_every_stored_update input=%s why=no error, %d leaves returned although one stored entry cannot be read\n", reader, in, len(got))
				}
				continue
			}
			if strings.HasPrefix(rname, "state data of a named") {
				// a combination no store answers is refused, it does not pass for an empty answer
				if err == nil || len(got) > 0 {
					fmt.Printf("REPLAY-FAIL fn=%s clause=a_request_that_selects_no_store_is_refused input=%s why=err=%v, %d leaves returned\n", fn, in, err, len(got))
				}
				continue
			}
			if strings.HasPrefix(rname, "state data of the intended") {
				if err == nil || len(got) > 0 {
					fmt.Printf("REPLAY-FAIL fn=%s clause=intended_state_is_refused input=%s why=err=%v, %d leaves returned\n", fn, in, err, len(got))
				}
				continue
			}
			if rname == "unknown key name of a list" || rname == "a key on a plain container" {
				if err == nil || len(got) > 0 {
					fmt.Printf("REPLAY-FAIL fn=%s clause=invalid_path_is_refused input=%s why=err=%v, %d leaves returned\n", fn, in, err, len(got))
				}
				continue
			}
			if rname == "unknown path" {
				if err == nil || len(got) > 0 {
					fmt.Printf("REPLAY-FAIL fn=%s clause=invalid_path_is_refused input=%s why=err=%v, %d leaves returned\n", fn, in, err, len(got))
				}
				continue
			}
			if err != nil {
				fmt.Printf("REPLAY-FAIL fn=%s clause=requestedPaths input=%s why=error %v\n", fn, in, err)
				continue
			}
			if strings.Join(want, "; ") != strings.Join(got, "; ") && strings.HasPrefix(rname, "two-key list, only the second key") {
				// recorded finding: the element sequence of a path drops the key names, a path that leaves out the first key
				// selects by the wrong key
				fmt.Printf("REPLAY-FAIL fn=%s clause=requestedPaths.known input=%s why=returned [%s], stored at or below the requested paths [%s]\n", fn, in, strings.Join(got, "; "), strings.Join(want, "; "))
			} else if strings.Join(want, "; ") != strings.Join(got, "; ") {
				fmt.Printf("REPLAY-FAIL fn=%s clause=requestedPaths input=%s why=returned [%s], stored at or below the requested paths [%s]\n", fn, in, strings.Join(got, "; "), strings.Join(want, "; "))
				fmt.Printf("REPLAY-FAIL fn=%s clause=answers_are_the_stored_updates input=%s why=returned [%s], stored at or below the requested paths [%s]\n", reader, in, strings.Join(got, "; "), strings.Join(want, "; "))
			}
		}
	}
	fmt.Printf("REPLAY-CASES fn=%s n=%d\n", fn, n)
	fmt.Printf("REPLAY-CASES fn=%s n=%d\n", "(*datastore.Datastore).handleGetDataUpdatesSTRING", n/4)
	fmt.Printf("REPLAY-CASES fn=%s n=%d\n", "(*datastore.Datastore).handleGetDataUpdatesPROTO", n/4)
	fmt.Printf("REPLAY-CASES fn=%s n=%d\n", "(*datastore.Datastore).handleGetDataUpdatesJSON", n/2)
}

// TestVerifReplayGetStores: the stores a request reads are a function of the request alone. Every ordered pair of
// requests (data type x datastore type x candidate name, GetData and Subscribe) is served by getStores one after the
// other and each answer is compared with the table the contract states.
func TestVerifReplayGetStores(t *testing.T) {
	fn := "datastore.getStores"
	type rq struct {
		name string
		msg  func() proto.Message
		want []cachepb.Store
	}
	var reqs []rq
	for _, dt := range []sdcpb.DataType{sdcpb.DataType_ALL, sdcpb.DataType_CONFIG, sdcpb.DataType_STATE} {
		for _, ty := range []sdcpb.Type{sdcpb.Type_MAIN, sdcpb.Type_CANDIDATE, sdcpb.Type_INTENDED} {
			for _, cand := range []string{"", "cand"} {
				dt, ty, cand := dt, ty, cand
				var want []cachepb.Store
				switch {
				case ty == sdcpb.Type_INTENDED:
					want = []cachepb.Store{cachepb.Store_INTENDED}
				case dt == sdcpb.DataType_ALL && cand == "":
					want = []cachepb.Store{cachepb.Store_CONFIG, cachepb.Store_STATE}
				case dt == sdcpb.DataType_ALL, dt == sdcpb.DataType_CONFIG:
					want = []cachepb.Store{cachepb.Store_CONFIG}
				case dt == sdcpb.DataType_STATE && cand == "":
					want = []cachepb.Store{cachepb.Store_STATE}
				}
				reqs = append(reqs, rq{fmt.Sprintf("GetData(%s,%s,name=%q)", dt, ty, cand), func() proto.Message {
					return &sdcpb.GetDataRequest{DataType: dt, Datastore: &sdcpb.DataStore{Type: ty, Name: cand}}
				}, want})
			}
		}
		dt := dt
		want := map[sdcpb.DataType][]cachepb.Store{sdcpb.DataType_ALL: {cachepb.Store_CONFIG, cachepb.Store_STATE}, sdcpb.DataType_CONFIG: {cachepb.Store_CONFIG}, sdcpb.DataType_STATE: {cachepb.Store_STATE}}[dt]
		reqs = append(reqs, rq{fmt.Sprintf("Subscription(%s)", dt), func() proto.Message { return &sdcpb.Subscription{DataType: dt} }, want})
	}
	same := func(a, b []cachepb.Store) bool {
		if len(a) != len(b) {
			return false
		}
		for i := range a {
			if a[i] != b[i] {
				return false
			}
		}
		return true
	}
	n := 0
	reported := map[string]bool{}
	for _, first := range reqs {
		for _, second := range reqs {
			n++
			func() {
				defer func() {
					if r := recover(); r != nil {
						fmt.Printf("REPLAY-FAIL fn=%s clause=panic input=%s then %s panic=%v\n", fn, first.name, second.name, r)
					}
				}()
				g1 := append([]cachepb.Store{}, getStores(first.msg())...)
				g2 := append([]cachepb.Store{}, getStores(second.msg())...)
				if !same(g1, first.want) && !reported[first.name] {
					reported[first.name] = true
					fmt.Printf("REPLAY-FAIL fn=%s clause=stores_of_the_request input=%s why=reads %v, expected %v\n", fn, first.name, g1, first.want)
				}
				if !same(g2, second.want) && !reported[first.name+">"+second.name] {
					reported[first.name+">"+second.name] = true
					fmt.Printf("REPLAY-FAIL fn=%s clause=stores_of_the_request input=%s served after %s why=reads %v, expected %v\n", fn, second.name, first.name, g2, second.want)
				}
			}()
		}
	}
	fmt.Printf("REPLAY-CASES fn=%s n=%d\n", fn, n)
}

type vrgStream struct {
	grpc.ServerStream
	ctx      context.Context
	cancel   context.CancelFunc
	m        sync.Mutex
	sent     int
	failFrom int // Send fails from this message on (0: never)
	goneAt   int // the client goes away (context cancelled) when this many messages were sent (0: never)
}

func (s *vrgStream) Context() context.Context { return s.ctx }
func (s *vrgStream) Send(*sdcpb.SubscribeResponse) error {
	s.m.Lock()
	defer s.m.Unlock()
	s.sent++
	if s.goneAt > 0 && s.sent >= s.goneAt {
		s.cancel()
	}
	if s.failFrom > 0 && s.sent >= s.failFrom {
		return fmt.Errorf("stream closed")
	}
	return nil
}

// TestVerifReplaySubscribe (C20): a Subscribe call comes back when the client is gone or the stream refuses the
// answers, however many subscriptions the request carries.
func TestVerifReplaySubscribe(t *testing.T) {
	fn := "(*datastore.Datastore).Subscribe"
	sv, _ := proto.Marshal(&sdcpb.TypedValue{Value: &sdcpb.TypedValue_StringVal{StringVal: "hallo 00"}})
	n := 0
	for _, nsub := range []int{1, 2, 3} {
		for _, how := range []string{"the client goes away after the first answers", "the stream refuses the second round of answers"} {
			n++
			ctrl := gomock.NewController(t)
			cc := mockcacheclient.NewMockClient(ctrl)
			cc.EXPECT().ReadCh(gomock.Any(), gomock.Any(), gomock.Any(), gomock.Any(), gomock.Any()).AnyTimes().DoAndReturn(
				func(_ context.Context, _ string, _ *cache.Opts, _ [][]string, _ time.Duration) chan *cache.Update {
					ch := make(chan *cache.Update, 1)
					ch <- cache.NewUpdate([]string{"patterntest"}, sv, 0, "", 0)
					close(ch)
					return ch
				})
			scl, schema, err := testhelper.InitSDCIOSchema()
			if err != nil {
				t.Fatal(err)
			}
			d := &Datastore{config: &config.DatastoreConfig{Name: "dev1", Schema: schema, Validation: &config.Validation{DisableConcurrency: true}}, cacheClient: cc,
				schemaClient: schemaClient.NewSchemaClientBound(schema.GetSchema(), scl), m: &sync.RWMutex{}, md: &sync.RWMutex{}}
			ctx, cancel := context.WithCancel(context.Background())
			st := &vrgStream{ctx: ctx, cancel: cancel}
			// the first round sends one answer per subscription (and per store) plus the sync response
			if strings.HasPrefix(how, "the client goes away") {
				st.goneAt = nsub + 1
			} else {
				st.failFrom = 2*nsub + 2
			}
			req := &sdcpb.SubscribeRequest{Name: "dev1"}
			for i := 0; i < nsub; i++ {
				req.Subscription = append(req.Subscription, &sdcpb.Subscription{Path: []*sdcpb.Path{{Elem: []*sdcpb.PathElem{{Name: "patterntest"}}}}, DataType: sdcpb.DataType_CONFIG, SampleInterval: uint64(10 * time.Millisecond)})
			}
			in := fmt.Sprintf("subscriptions=%d,%s", nsub, how)
			done := make(chan any, 1)
			go func() {
				defer func() {
					if r := recover(); r != nil {
						done <- r
					}
				}()
				d.Subscribe(req, st)
				done <- nil
			}()
			select {
			case r := <-done:
				if r != nil {
					fmt.Printf("REPLAY-FAIL fn=%s clause=panic input=%s panic=%v\n", fn, in, r)
				}
			case <-time.After(3 * time.Second):
				fmt.Printf("REPLAY-FAIL fn=%s clause=hang input=%s why=the call has not returned after 3 s\n", fn, in)
			}
			cancel()
		}
	}
	fmt.Printf("REPLAY-CASES fn=%s n=%d\n", fn, n)
}
