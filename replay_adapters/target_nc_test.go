package target

// Replay adapter (injected by /verif/bin/gvc via `go test -overlay`; never written into /repo).
// Enumerates every fault combination of the NETCONF driver for setCandidate / setRunning / Set on the real code
// and evaluates the executable form of the C18 contract clauses on the recorded driver trace.

import (
	"context"
	"errors"
	"fmt"
	"strings"
	"sync"
	"testing"

	"github.com/beevik/etree"
	"github.com/sdcio/data-server/pkg/config"
	"github.com/sdcio/data-server/pkg/datastore/target/netconf/types"
	sdcpb "github.com/sdcio/sdc-protos/sdcpb"
)

type vrFault int

const (
	vrOK vrFault = iota
	vrErr
	vrEOF
	vrTimeout // the device did not answer in time; the session itself is alive
)

func (f vrFault) err(what string) error {
	switch f {
	case vrErr:
		return errors.New(what + " failed")
	case vrEOF:
		return errors.New(what + ": unexpected EOF")
	case vrTimeout:
		return errors.New("errTimeoutError: channel timeout sending input to device (" + what + ")")
	}
	return nil
}

type vrDriver struct {
	edit, commit, discard vrFault
	trace                 []string
	cancelAt              string // "", "edit", "commit": the request context is cancelled while that RPC is in flight
	cancel                context.CancelFunc
}

func (d *vrDriver) Get(string) (*types.NetconfResponse, error)               { return nil, nil }
func (d *vrDriver) GetConfig(string, string) (*types.NetconfResponse, error) { return nil, nil }
func (d *vrDriver) Lock(string) (*types.NetconfResponse, error)              { return nil, nil }
func (d *vrDriver) Unlock(string) (*types.NetconfResponse, error)            { return nil, nil }
func (d *vrDriver) Validate(string) (*types.NetconfResponse, error)          { return nil, nil }
func (d *vrDriver) IsAlive() bool                                            { return true }
func (d *vrDriver) EditConfig(target, cfg string) (*types.NetconfResponse, error) {
	d.trace = append(d.trace, "EditConfig("+target+")")
	if d.cancelAt == "edit" && d.cancel != nil {
		d.cancel()
	}
	if e := d.edit.err("edit-config"); e != nil {
		return nil, e
	}
	return types.NewNetconfResponse(etree.NewDocument()), nil
}
func (d *vrDriver) Commit() error {
	d.trace = append(d.trace, "Commit")
	if d.cancelAt == "commit" && d.cancel != nil {
		d.cancel()
	}
	return d.commit.err("commit")
}
func (d *vrDriver) Discard() error {
	d.trace = append(d.trace, "Discard")
	return d.discard.err("discard")
}
func (d *vrDriver) Close() error { d.trace = append(d.trace, "DriverClose"); return nil }

type vrSource struct {
	xmlErr  bool
	empty   bool
	xmlArgs [][4]bool // the arguments of every ToXML call
}

func (s *vrSource) ToJson(bool) (any, error)     { return nil, nil }
func (s *vrSource) ToJsonIETF(bool) (any, error) { return nil, nil }
func (s *vrSource) ToXML(onlyNewOrUpdated, honorNamespace, operationWithNamespace, useOperationRemove bool) (*etree.Document, error) {
	s.xmlArgs = append(s.xmlArgs, [4]bool{onlyNewOrUpdated, honorNamespace, operationWithNamespace, useOperationRemove})
	if s.xmlErr {
		return nil, errors.New("xml rendering failed")
	}
	d := etree.NewDocument()
	if !s.empty {
		d.CreateElement("interface").CreateElement("name").SetText("eth0")
	}
	return d, nil
}
func (s *vrSource) ToProtoUpdates(context.Context, bool) ([]*sdcpb.Update, error) { return nil, nil }
func (s *vrSource) ToProtoDeletes(context.Context) ([]*sdcpb.Path, error)         { return nil, nil }

func vrCount(tr []string, prefix string) int {
	n := 0
	for _, e := range tr {
		if strings.HasPrefix(e, prefix) {
			n++
		}
	}
	return n
}

// vrCheck evaluates the clauses; which selects candidate / running shapes.
func vrCheck(fn, ds string, tr []string, err error, src *vrSource, fail func(clause, why string)) {
	n := len(tr)
	last := ""
	if n > 0 {
		last = tr[n-1]
	}
	docEmpty := src.xmlErr || src.empty
	if n > 0 && tr[0] != "EditConfig("+ds+")" {
		fail("first_is_edit", "first event "+tr[0])
	}
	if vrCount(tr, "EditConfig(") > 1 {
		fail("at_most_one_edit", "edits="+fmt.Sprint(vrCount(tr, "EditConfig(")))
	}
	for i, e := range tr {
		if e == "DriverClose" && i != n-1 {
			fail("close_is_last", "close at "+fmt.Sprint(i))
		}
	}
	if !src.xmlErr && src.empty && n != 0 {
		fail("empty", "events for an empty document")
	}
	if err == nil && n == 0 && !docEmpty {
		fail("silent_success_means_empty", "success without any RPC for a non-empty document")
	}
	switch ds {
	case "candidate":
		for i, e := range tr {
			if e == "Commit" && i != 1 {
				fail("commit_only_second", "commit at "+fmt.Sprint(i))
			}
		}
		if err == nil && !(n == 0 || (n == 2 && tr[1] == "Commit")) {
			fail("success", "trace "+strings.Join(tr, ","))
		}
		if err == nil && !docEmpty && !(n == 2 && tr[1] == "Commit") {
			fail("success_sends", "trace "+strings.Join(tr, ","))
		}
		if err != nil && n > 0 && last != "Discard" && last != "DriverClose" {
			fail("discard_or_close_on_error", "error returned with trace "+strings.Join(tr, ","))
		}
	case "running":
		if err == nil && !(n == 0 || n == 1) {
			fail("success", "trace "+strings.Join(tr, ","))
		}
		if err == nil && !docEmpty && n != 1 {
			fail("success_sends", "trace "+strings.Join(tr, ","))
		}
		for _, e := range tr {
			if e == "Commit" || e == "Discard" {
				fail("never_commit_or_discard", e)
			}
		}
	}
}

func TestVerifReplayNcSet(t *testing.T) {
	faults := []vrFault{vrOK, vrErr, vrEOF, vrTimeout}
	counts := map[string]int{}
	inner := map[string]string{"candidate": "(*datastore/target.ncTarget).setCandidate", "running": "(*datastore/target.ncTarget).setRunning"}
	for _, ds := range []string{"candidate", "running", "bogus"} {
		for _, cancelAt := range []string{"", "edit", "commit"} {
			for _, xmlErr := range []bool{false, true} {
				for _, empty := range []bool{false, true} {
					for fi, fe := range faults {
						for fci, fc := range faults {
							for fdi, fd := range faults {
								ctx, cancel := context.WithCancel(context.Background())
								d := &vrDriver{edit: fe, commit: fc, discard: fd, cancelAt: cancelAt, cancel: cancel}
								src := &vrSource{xmlErr: xmlErr, empty: empty}
								// the rendering options of the target: every combination is met (they vary with the fault indices)
								includeNS, opNS, useRemove := fi%2 == 1, fci%2 == 1, fdi%2 == 1
								nt := &ncTarget{name: "replay", m: new(sync.Mutex), driver: d, sbiConfig: &config.SBI{NetconfOptions: &config.SBINetconfOptions{CommitDatastore: ds, IncludeNS: includeNS, OperationWithNamespace: opNS, UseOperationRemove: useRemove}}}
								fns := []string{"(*datastore/target.ncTarget).Set"}
								if in, ok := inner[ds]; ok {
									fns = append(fns, in)
								}
								var err error
								func() {
									defer func() {
										if r := recover(); r != nil {
											for _, fn := range fns {
												fmt.Printf("REPLAY-FAIL fn=%s clause=panic input=ds=%s cancelAt=%q xmlErr=%v empty=%v edit=%d commit=%d discard=%d panic=%v\n", fn, ds, cancelAt, xmlErr, empty, fe, fc, fd, r)
											}
										}
									}()
									_, err = nt.Set(ctx, src)
								}()
								cancel()
								for _, fn := range fns {
									counts[fn]++
								}
								input := fmt.Sprintf("input=ds=%s ctxCancelledDuring=%q xmlErr=%v emptyDoc=%v edit=%d commit=%d discard=%d (0 ok,1 error,2 EOF error,3 timeout error) err=%v trace=%v", ds, cancelAt, xmlErr, empty, fe, fc, fd, err, d.trace)
								fail := func(clause, why string) {
									for _, fn := range fns {
										fmt.Printf("REPLAY-FAIL fn=%s clause=%s %s why=%s\n", fn, clause, input, why)
									}
								}
								if ds == "bogus" {
									if err == nil || len(d.trace) != 0 {
										fail("unknown_datastore_sends_nothing", "events or success for an unknown datastore")
									}
									continue
								}
								vrCheck(fns[0], ds, d.trace, err, src, fail)
								// what is rendered is the change (new or updated values and the deletes), with the options of the target
								if len(src.xmlArgs) != 1 || src.xmlArgs[0] != [4]bool{true, includeNS, opNS, useRemove} {
									fail("the_document_holds_the_change_only", fmt.Sprintf("ToXML calls %v, options of the target include-ns=%v operation-with-namespace=%v use-operation-remove=%v", src.xmlArgs, includeNS, opNS, useRemove))
								}
								// only a dead connection (EOF) excuses the discard
								if ds == "candidate" && err != nil && len(d.trace) > 0 && d.trace[len(d.trace)-1] == "DriverClose" {
									failing := fe
									if fe == vrOK {
										failing = fc
									}
									if failing != vrEOF {
										fail("close_only_on_dead_connection", "closed without discard after a failure that is not a dead connection")
									}
								}
								// Set's own clause names
								if ds == "candidate" && err == nil && len(d.trace) > 0 && !(len(d.trace) == 2 && d.trace[1] == "Commit") {
									fail("success_candidate", "trace "+strings.Join(d.trace, ","))
								}
								if ds == "running" && err == nil && len(d.trace) > 1 {
									fail("success_running", "trace "+strings.Join(d.trace, ","))
								}
								if len(d.trace) > 0 && d.trace[0] != "EditConfig("+ds+")" {
									fail("edits_target_configured_datastore", d.trace[0])
								}
								for i, e := range d.trace {
									if e == "Commit" && !(ds == "candidate" && i == 1) {
										fail("commit_only_for_candidate", "commit at "+fmt.Sprint(i))
									}
								}
							}
						}
					}
				}
			}
		}
	}
	for fn, n := range counts {
		fmt.Printf("REPLAY-CASES fn=%s n=%d\n", fn, n)
	}
}
