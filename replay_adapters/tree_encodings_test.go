package tree

// Bounded stand-in (injected via `go test -overlay`) for the cross-encoding part of C10: the change of one transaction,
// rendered as gNMI proto updates/deletes, JSON, JSON_IETF and NETCONF XML (8 option sets), must denote the same set of
// leaf values, the same set of list entries and the same set of deleted subtrees. The proto rendering is the reference.
//
// Scenario space: a base configuration (existing intent = running) and twelve edits of the intent's new revision
// (regular / key-only / nested key-only / two-key key-only / two-key regular entries added, leaf updated, leaf removed,
// list entry removed, nested entry removed, leaf-list changed, choice case switched, container content removed):
// none, each alone, every pair, all together; x onlyNewOrUpdated in {true,false}.

import (
	"context"
	"fmt"
	"os"
	"path/filepath"
	"sort"
	"strings"
	"testing"
	"time"

	"github.com/beevik/etree"
	"github.com/openconfig/ygot/ygot"
	"github.com/sdcio/data-server/mocks/mockcacheclient"
	"github.com/sdcio/data-server/mocks/mockschemaclientbound"
	"github.com/sdcio/data-server/pkg/cache"
	"github.com/sdcio/data-server/pkg/config"
	"github.com/sdcio/data-server/pkg/utils"
	"github.com/sdcio/data-server/pkg/utils/testhelper"
	sdcio_schema "github.com/sdcio/data-server/tests/sdcioygot"
	sConfig "github.com/sdcio/schema-server/pkg/config"
	"github.com/sdcio/schema-server/pkg/schema"
	"github.com/sdcio/schema-server/pkg/store/memstore"
	sdcpb "github.com/sdcio/sdc-protos/sdcpb"
	"go.uber.org/mock/gomock"
	"google.golang.org/protobuf/proto"
)

func vreBase() *sdcio_schema.Device {
	return &sdcio_schema.Device{
		Interface: map[string]*sdcio_schema.SdcioModel_Interface{
			"ethernet-1/1": {
				AdminState:  sdcio_schema.SdcioModelIf_AdminState_enable,
				Description: ygot.String("Foo"),
				Name:        ygot.String("ethernet-1/1"),
				Subinterface: map[uint32]*sdcio_schema.SdcioModel_Interface_Subinterface{
					0: {Description: ygot.String("Subinterface 0"), Type: sdcio_schema.SdcioModelCommon_SiType_routed, Index: ygot.Uint32(0)},
					1: {Description: ygot.String("Subinterface 1"), Index: ygot.Uint32(1)},
				},
			},
			"ethernet-1/2": {
				Description: ygot.String("Bar"),
				Name:        ygot.String("ethernet-1/2"),
			},
		},
		Choices: &sdcio_schema.SdcioModel_Choices{
			Case1: &sdcio_schema.SdcioModel_Choices_Case1{CaseElem: &sdcio_schema.SdcioModel_Choices_Case1_CaseElem{Elem: ygot.String("foocaseval")}},
		},
		Leaflist:    &sdcio_schema.SdcioModel_Leaflist{Entry: []string{"foo", "bar"}},
		Patterntest: ygot.String("foo"),
		NetworkInstance: map[string]*sdcio_schema.SdcioModel_NetworkInstance{
			"default": {AdminState: sdcio_schema.SdcioModelNi_AdminState_disable, Description: ygot.String("Default NI"), Type: sdcio_schema.SdcioModelNi_NiType_default, Name: ygot.String("default")},
		},
		Doublekey: map[sdcio_schema.SdcioModel_Doublekey_Key]*sdcio_schema.SdcioModel_Doublekey{
			{Key1: "k1.1", Key2: "k1.2"}: {Key1: ygot.String("k1.1"), Key2: ygot.String("k1.2"), Mandato: ygot.String("m1"), Cont: &sdcio_schema.SdcioModel_Doublekey_Cont{Value1: ygot.String("v1"), Value2: ygot.String("v2")}},
		},
	}
}

var vreEdits = []struct {
	name string
	f    func(c *sdcio_schema.Device)
}{
	{"add-regular-entry", func(c *sdcio_schema.Device) {
		c.Interface["ethernet-1/8"] = &sdcio_schema.SdcioModel_Interface{Name: ygot.String("ethernet-1/8"), Description: ygot.String("regular")}
	}},
	{"add-key-only-entry", func(c *sdcio_schema.Device) {
		c.Interface["ethernet-1/7"] = &sdcio_schema.SdcioModel_Interface{Name: ygot.String("ethernet-1/7")}
	}},
	{"add-nested-key-only-entry", func(c *sdcio_schema.Device) {
		c.Interface["ethernet-1/1"].Subinterface[3] = &sdcio_schema.SdcioModel_Interface_Subinterface{Index: ygot.Uint32(3)}
	}},
	{"add-two-key-key-only-entry", func(c *sdcio_schema.Device) {
		c.Doublekey[sdcio_schema.SdcioModel_Doublekey_Key{Key1: "k2.1", Key2: "k2.2"}] = &sdcio_schema.SdcioModel_Doublekey{Key1: ygot.String("k2.1"), Key2: ygot.String("k2.2")}
	}},
	{"add-two-key-entry", func(c *sdcio_schema.Device) {
		c.Doublekey[sdcio_schema.SdcioModel_Doublekey_Key{Key1: "k3.1", Key2: "k3.2"}] = &sdcio_schema.SdcioModel_Doublekey{Key1: ygot.String("k3.1"), Key2: ygot.String("k3.2"), Mandato: ygot.String("m3"), Cont: &sdcio_schema.SdcioModel_Doublekey_Cont{Value1: ygot.String("x")}}
	}},
	{"update-leaf", func(c *sdcio_schema.Device) { c.Interface["ethernet-1/1"].Description = ygot.String("Changed") }},
	{"remove-leaf", func(c *sdcio_schema.Device) { c.Patterntest = nil }},
	{"remove-entry", func(c *sdcio_schema.Device) { delete(c.NetworkInstance, "default") }},
	{"remove-nested-entry", func(c *sdcio_schema.Device) { delete(c.Interface["ethernet-1/1"].Subinterface, 0) }},
	{"change-leaflist", func(c *sdcio_schema.Device) { c.Leaflist.Entry = []string{"bar", "baz", "qux"} }},
	{"switch-choice-case", func(c *sdcio_schema.Device) {
		c.Choices = &sdcio_schema.SdcioModel_Choices{Case2: &sdcio_schema.SdcioModel_Choices_Case2{Log: ygot.Bool(true)}}
	}},
	{"remove-container-content", func(c *sdcio_schema.Device) {
		c.Doublekey[sdcio_schema.SdcioModel_Doublekey_Key{Key1: "k1.1", Key2: "k1.2"}].Cont = nil
	}},
}

func vreExpand(ctx context.Context, conf *sdcio_schema.Device, converter *utils.Converter) ([]*sdcpb.Update, error) {
	strJson, err := ygot.EmitJSON(conf, &ygot.EmitJSONConfig{Format: ygot.RFC7951, SkipValidation: true})
	if err != nil {
		return nil, err
	}
	return converter.ExpandUpdate(ctx, &sdcpb.Update{Path: &sdcpb.Path{Elem: []*sdcpb.PathElem{}}, Value: &sdcpb.TypedValue{Value: &sdcpb.TypedValue_JsonVal{JsonVal: []byte(strJson)}}}, true)
}

func vreAdd(ctx context.Context, root *RootEntry, updates []*sdcpb.Update, flags *UpdateInsertFlags, owner string, prio int32) error {
	for _, upd := range updates {
		b, err := proto.Marshal(upd.Value)
		if err != nil {
			return err
		}
		if _, err = root.AddCacheUpdateRecursive(ctx, cache.NewUpdate(utils.ToStrings(upd.GetPath(), false, false), b, prio, owner, 0), flags); err != nil {
			return err
		}
	}
	return nil
}

// denotation of one rendering
type vreDen struct {
	leaves   map[string]string // instance path -> value (key leaves excluded: they are part of the entry identity)
	entries  map[string]bool   // list entries that exist after the change is applied
	deletes  map[string]bool   // deleted subtrees
	errs     []string
	replaced []string // elements carrying operation="replace"
}

func newVreDen() *vreDen {
	return &vreDen{leaves: map[string]string{}, entries: map[string]bool{}, deletes: map[string]bool{}}
}

func vreElem(name string, keys map[string]string) string {
	ks := make([]string, 0, len(keys))
	for k := range keys {
		ks = append(ks, k)
	}
	sort.Strings(ks)
	sb := strings.Builder{}
	sb.WriteString(name)
	for _, k := range ks {
		sb.WriteString("[" + k + "=" + keys[k] + "]")
	}
	return sb.String()
}

func vreTvString(tv *sdcpb.TypedValue) (string, bool) {
	switch v := tv.GetValue().(type) {
	case *sdcpb.TypedValue_LeaflistVal:
		parts := []string{}
		for _, e := range v.LeaflistVal.GetElement() {
			s, _ := vreTvString(e)
			parts = append(parts, s)
		}
		return strings.Join(parts, ","), false
	case *sdcpb.TypedValue_IdentityrefVal:
		return v.IdentityrefVal.GetValue(), true
	case *sdcpb.TypedValue_EmptyVal:
		return "<presence>", false
	}
	return utils.TypedValueToString(tv), false
}

func vreStripPrefix(s string) string {
	if i := strings.Index(s, ":"); i >= 0 {
		return s[i+1:]
	}
	return s
}

// listKeys: schema path -> key names, learned from the proto paths
func vreLearnKeys(listKeys map[string][]string, p *sdcpb.Path) {
	sp := ""
	for _, pe := range p.GetElem() {
		sp += "/" + pe.GetName()
		if len(pe.GetKey()) > 0 {
			ks := []string{}
			for k := range pe.GetKey() {
				ks = append(ks, k)
			}
			sort.Strings(ks)
			listKeys[sp] = ks
		}
	}
}

func vreFromProto(upds []*sdcpb.Update, dels []*sdcpb.Path) (*vreDen, map[string]bool) {
	d := newVreDen()
	identity := map[string]bool{}
	for _, u := range upds {
		elems := u.GetPath().GetElem()
		ip := ""
		for i, pe := range elems {
			ip += "/" + vreElem(pe.GetName(), pe.GetKey())
			if len(pe.GetKey()) > 0 {
				d.entries[ip] = true
			}
			if i == len(elems)-1 {
				val, isIdent := vreTvString(u.GetValue())
				if i > 0 {
					if kv, isKey := elems[i-1].GetKey()[pe.GetName()]; isKey {
						if kv != val {
							d.errs = append(d.errs, fmt.Sprintf("proto: key leaf %s = %q in an entry identified by %q", ip, val, kv))
						}
						continue
					}
				}
				d.leaves[ip] = val
				if isIdent {
					identity[ip] = true
				}
			}
		}
	}
	for _, p := range dels {
		ip := ""
		for _, pe := range p.GetElem() {
			ip += "/" + vreElem(pe.GetName(), pe.GetKey())
		}
		d.deletes[ip] = true
	}
	return d, identity
}

func vreFromJSON(j any, listKeys map[string][]string) *vreDen {
	d := newVreDen()
	var walk func(m map[string]any, ip, sp string, skip []string)
	walk = func(m map[string]any, ip, sp string, skip []string) {
		for rawName, v := range m {
			name := vreStripPrefix(rawName)
			isSkip := false
			for _, s := range skip {
				if s == name {
					isSkip = true
				}
			}
			if isSkip {
				continue
			}
			cip, csp := ip+"/"+name, sp+"/"+name
			switch tv := v.(type) {
			case map[string]any:
				if len(tv) == 0 {
					d.leaves[cip] = "<presence>"
				}
				walk(tv, cip, csp, nil)
			case []any:
				keys, isList := listKeys[csp]
				if !isList {
					parts := []string{}
					for _, e := range tv {
						if e == nil {
							continue // [null]: the empty type
						}
						parts = append(parts, fmt.Sprint(e))
					}
					d.leaves[cip] = strings.Join(parts, ",")
					continue
				}
				for _, e := range tv {
					em, ok := e.(map[string]any)
					if !ok {
						d.errs = append(d.errs, fmt.Sprintf("list %s holds a non-object %v", cip, e))
						continue
					}
					kv := map[string]string{}
					for _, k := range keys {
						found := false
						for mk, mv := range em {
							if vreStripPrefix(mk) == k {
								kv[k] = fmt.Sprint(mv)
								found = true
							}
						}
						if !found {
							d.errs = append(d.errs, fmt.Sprintf("entry of list %s lacks key %s: %v", cip, k, em))
						}
					}
					eip := ip + "/" + vreElem(name, kv)
					d.entries[eip] = true
					walk(em, eip, csp, keys)
				}
			default:
				d.leaves[cip] = fmt.Sprint(v)
			}
		}
	}
	if m, ok := j.(map[string]any); ok {
		walk(m, "", "", nil)
	} else if j != nil {
		d.errs = append(d.errs, fmt.Sprintf("document is a %T", j))
	}
	return d
}

func vreOperation(e *etree.Element) (string, string, bool) {
	for _, a := range e.Attr {
		if a.Key == "operation" {
			return a.Space, a.Value, true
		}
	}
	return "", "", false
}

func vreFromXML(doc *etree.Element, listKeys map[string][]string, withNs, useRemove bool) *vreDen {
	d := newVreDen()
	// returns whether the subtree writes something / deletes something
	var walk func(e *etree.Element, ip, sp string, skip []string) (bool, bool)
	walk = func(e *etree.Element, ip, sp string, skip []string) (bool, bool) {
		writes, deletes := false, false
		leaflists := map[string][]string{}
		order := []string{}
		for _, c := range e.ChildElements() {
			name := c.Tag
			if name == "" {
				d.errs = append(d.errs, "element without a name below "+ip)
				continue
			}
			isSkip := false
			for _, s := range skip {
				if s == name {
					isSkip = true
				}
			}
			if isSkip {
				continue
			}
			cip, csp := ip+"/"+name, sp+"/"+name
			keys, isList := listKeys[csp]
			entryPath := func() string {
				kv := map[string]string{}
				for _, k := range keys {
					ke := c.SelectElement(k)
					if ke == nil {
						d.errs = append(d.errs, fmt.Sprintf("entry of list %s lacks key %s", cip, k))
						continue
					}
					kv[k] = ke.Text()
				}
				// the keys come first, in key-statement order (RFC 7950 7.8.5)
				ce := c.ChildElements()
				for i, k := range keys {
					if i >= len(ce) || ce[i].Tag != k {
						got := []string{}
						for _, x := range ce {
							got = append(got, x.Tag)
						}
						d.errs = append(d.errs, fmt.Sprintf("keys_first: entry of list %s: child elements are %v, the keys %v have to come first, in this order", cip, got, keys))
						break
					}
				}
				return ip + "/" + vreElem(name, kv)
			}
			if space, op, has := vreOperation(c); has && op == "replace" {
				// known finding: a changed leaf-list puts operation="replace" on its parent element
				d.replaced = append(d.replaced, cip)
				if withNs != (space != "") {
					d.errs = append(d.errs, fmt.Sprintf("%s: operation attribute namespace prefix %q, operationWithNamespace=%v", cip, space, withNs))
				}
			} else if has {
				deletes = true
				want := "delete"
				if useRemove {
					want = "remove"
				}
				if op != want {
					d.errs = append(d.errs, fmt.Sprintf("%s carries operation %q, configured is %q", cip, op, want))
				}
				if withNs != (space != "") {
					d.errs = append(d.errs, fmt.Sprintf("%s: operation attribute namespace prefix %q, operationWithNamespace=%v", cip, space, withNs))
				}
				if isList && len(c.ChildElements()) > 0 {
					d.deletes[entryPath()] = true
				} else {
					d.deletes[cip] = true
				}
				continue
			}
			if isList {
				eip := entryPath()
				w, del := walk(c, eip, csp, keys)
				if w || !del {
					d.entries[eip] = true
					w = true
				}
				writes, deletes = writes || w, deletes || del
				continue
			}
			if len(c.ChildElements()) == 0 {
				if _, seen := leaflists[cip]; !seen {
					order = append(order, cip)
				}
				txt := c.Text()
				if txt == "" {
					txt = "<presence>" // a childless element without text: a bare presence container (or a leaf of type empty)
				}
				leaflists[cip] = append(leaflists[cip], txt)
				writes = true
				continue
			}
			w, del := walk(c, cip, csp, nil)
			writes, deletes = writes || w, deletes || del
		}
		for _, p := range order {
			d.leaves[p] = strings.Join(leaflists[p], ",")
		}
		return writes, deletes
	}
	walk(doc, "", "", nil)
	return d
}

// minimal delete set: a delete below another delete adds nothing
func vreMinimal(s map[string]bool) []string {
	out := []string{}
	for p := range s {
		covered := false
		for q := range s {
			if q != p && strings.HasPrefix(p, q+"/") {
				covered = true
			}
		}
		if !covered {
			out = append(out, p)
		}
	}
	sort.Strings(out)
	return out
}

// vreCompare returns the differences and, separately, the differences that are recorded known findings:
//   - with onlyNewOrUpdated=false the proto rendering still carries leaves below a deleted subtree (GetHighestPrecedence(false)
//     returns the delete-flagged entry), JSON and XML leave them out;
//   - a changed leaf-list makes the XML rendering put operation="replace" on the parent element.
func vreCompare(ref, got *vreDen, identity map[string]bool, withDeletes, onlyNew bool) (out []string, known []string) {
	out = append(out, got.errs...)
	coveredByDelete := func(p string) bool {
		for q := range ref.deletes {
			// (a gNMI path that leaves out trailing keys of a list addresses every entry with the keys it names)
			if p == q || strings.HasPrefix(p, q+"/") || strings.HasPrefix(p, q+"[") {
				return true
			}
		}
		return false
	}
	for p, v := range ref.leaves {
		g, ok := got.leaves[p]
		if !ok {
			msg := fmt.Sprintf("leaf %s (= %q) is written via proto but missing", p, v)
			if !onlyNew && coveredByDelete(p) {
				known = append(known, "removed leaf still in the proto updates: "+msg)
			} else {
				out = append(out, msg)
			}
			continue
		}
		if identity[p] {
			g = vreStripPrefix(g)
		}
		if g != v {
			out = append(out, fmt.Sprintf("leaf %s is %q, proto has %q", p, g, v))
		}
	}
	for p, v := range got.leaves {
		if _, ok := ref.leaves[p]; !ok {
			out = append(out, fmt.Sprintf("leaf %s (= %q) is not written via proto", p, v))
		}
	}
	for p := range ref.entries {
		if !got.entries[p] {
			msg := fmt.Sprintf("list entry %s exists via proto but is missing", p)
			if !onlyNew && coveredByDelete(p) {
				known = append(known, "removed entry still in the proto updates: "+msg)
			} else {
				out = append(out, msg)
			}
		}
	}
	for p := range got.entries {
		if !ref.entries[p] {
			out = append(out, fmt.Sprintf("list entry %s is not created via proto", p))
		}
	}
	if withDeletes {
		a, b := vreMinimal(ref.deletes), vreMinimal(got.deletes)
		if strings.Join(a, " ") != strings.Join(b, " ") {
			// the proto deletes aggregate the entries of a multi-key list that share their leading keys into one path
			// without the trailing keys: the same entries, as long as every entry named that way is deleted one by one
			same := true
			for _, x := range b {
				if !coveredByDelete(x) {
					same = false
				}
			}
			for _, q := range a {
				covers := false
				for _, x := range b {
					if x == q || strings.HasPrefix(x, q+"[") {
						covers = true
					}
				}
				same = same && covers
			}
			if !same {
				out = append(out, fmt.Sprintf("deleted subtrees %v, proto deletes %v", b, a))
			}
		}
	}
	for _, r := range got.replaced {
		known = append(known, fmt.Sprintf("%s carries operation=\"replace\": the whole element is replaced, proto only writes the leaf-list", r))
	}
	sort.Strings(out)
	sort.Strings(known)
	return out, known
}

const vreYang2 = `module vrpresence {
  yang-version 1.1;
  namespace "urn:verif/presence";
  prefix vrp;

  container system {
    leaf hostname { type string; }
    container lldp {
      presence "enables lldp";
      leaf admin-state { type string; default "enable"; }
    }
  }
  list interface {
    key "name";
    leaf name { type string; }
    leaf mtu { type uint16; }
    container ipv4 {
      presence "enables ipv4";
      leaf admin-state { type string; default "enable"; }
    }
  }
  container top {
    choice outer {
      case a {
        container ca {
          choice inner {
            leaf x { type string; }
            leaf y { type string; }
          }
          leaf plain { type string; }
        }
      }
      case b {
        leaf bl { type string; }
      }
    }
  }
  container val {
    leaf on { type string; }
    leaf size { type int32; must ". > 5"; }
    leaf dec { type decimal64 { fraction-digits 2; } must ". > 1.5"; }
    leaf neg { type int8; }
    leaf negcheck { type string; must "../neg < 0"; }
    leaf usize { type uint32; must ". > 5"; }
    leaf flag { type boolean; }
    leaf dep { type string; must "../flag = 'false'"; }
    list sub {
      key id;
      leaf id { type uint32; }
      leaf kind { type string; }
    }
    leaf subid { type uint32; }
    leaf subkind { type leafref { path "/vrp:val/vrp:sub[vrp:id=current()/../vrp:subid]/vrp:kind"; } }
  }
  list chl {
    key name;
    leaf name { type string; }
    choice c {
      leaf a { type string; }
      leaf b { type string; }
    }
  }
  container cons {
    leaf-list refs { type leafref { path "/vrp:val/vrp:sub/vrp:kind"; } }
    list tenant {
      key name;
      must "descr != 'forbidden'";
      leaf name { type string; }
      leaf descr { type string; }
    }
    leaf uni { type union { type string { pattern 'a+'; } type string { pattern 'b+'; } } }
    leaf-list tags { type string { length "1..3"; } }
    leaf-list ptags { type string { pattern "a+"; } }
    container mc {
      leaf other { type string; }
      choice c7 {
        mandatory true;
        leaf x1 { type string; }
        leaf x2 { type string; }
      }
    }
    container mcase {
      choice c8 {
        case y {
          leaf y1 { type string; mandatory true; }
          leaf y2 { type string; }
        }
        case z { leaf z1 { type string; } }
      }
    }
  }
  container mk {
    container settings { leaf mode { type string; } }
    list area {
      key "id zone";
      leaf id { type string; }
      leaf zone { type string; }
      leaf cost { type uint32; must "../../settings/mode = 'manual'"; }
      container timers { leaf hello { type uint32; must "../../../settings/mode = 'manual'"; } }
    }
    list one {
      key "id";
      leaf id { type string; }
      leaf cost { type uint32; must "../../settings/mode = 'manual'"; }
    }
    list rev {
      key "zone id";
      leaf zone { type string; }
      leaf id { type string; }
      leaf val { type string; }
    }
    leaf rev-id { type string; }
    leaf rev-zone { type string; }
    leaf rev-ref { type leafref { path "../rev[id=current()/../rev-id][zone=current()/../rev-zone]/val"; } }
  }
  container dr {
    leaf on { type string; }
    leaf target { type string; }
    leaf dflt-ref { type leafref { path "../target"; } default "nope"; }
  }
}
`

// a second module that augments nodes of its own namespace into the first one
const vreYang3 = `module vraug {
  yang-version 1.1;
  namespace "urn:verif/aug";
  prefix vra;
  import vrpresence { prefix vrp; }

  augment "/vrp:system" {
    leaf sysextra { type string; }
    leaf sysflag { type empty; }
  }
  augment "/vrp:interface" {
    leaf extra { type string; }
    leaf flag { type empty; }
    leaf-list tags { type string; }
    container auc {
      leaf v { type string; }
    }
  }
}
`

// vreSchema2 loads the module above into an in-memory schema store and returns a bound schema client backed by it (the
// way testhelper.GetSchemaClientBound does for tests/schema).
func vreSchema2(t *testing.T, mockCtrl *gomock.Controller) *mockschemaclientbound.MockSchemaClientBound {
	dir := t.TempDir()
	if err := os.WriteFile(filepath.Join(dir, "vrpresence.yang"), []byte(vreYang2), 0o644); err != nil {
		t.Fatal(err)
	}
	if err := os.WriteFile(filepath.Join(dir, "vraug.yang"), []byte(vreYang3), 0o644); err != nil {
		t.Fatal(err)
	}
	sc := &sConfig.SchemaConfig{Name: "vrpresence", Vendor: "verif", Version: "v0.0.0", Files: []string{dir}}
	sch, err := schema.NewSchema(sc)
	if err != nil {
		t.Fatal(err)
	}
	store := memstore.New()
	if err := store.AddSchema(sch); err != nil {
		t.Fatal(err)
	}
	id := &sdcpb.Schema{Name: sc.Name, Vendor: sc.Vendor, Version: sc.Version}
	m := mockschemaclientbound.NewMockSchemaClientBound(mockCtrl)
	m.EXPECT().GetSchemaSdcpbPath(gomock.Any(), gomock.Any()).AnyTimes().DoAndReturn(
		func(ctx context.Context, path *sdcpb.Path) (*sdcpb.GetSchemaResponse, error) {
			return store.GetSchema(ctx, &sdcpb.GetSchemaRequest{Path: path, Schema: id})
		})
	m.EXPECT().ToPath(gomock.Any(), gomock.Any()).AnyTimes().DoAndReturn(
		func(ctx context.Context, path []string) (*sdcpb.Path, error) {
			pr, err := store.ToPath(ctx, &sdcpb.ToPathRequest{PathElement: path, Schema: id})
			if err != nil {
				return nil, err
			}
			return pr.GetPath(), nil
		})
	m.EXPECT().GetSchemaSlicePath(gomock.Any(), gomock.Any()).AnyTimes().DoAndReturn(
		func(ctx context.Context, path []string) (*sdcpb.GetSchemaResponse, error) {
			p, err := m.ToPath(ctx, path)
			if err != nil {
				return nil, err
			}
			return store.GetSchema(ctx, &sdcpb.GetSchemaRequest{Path: p, Schema: id})
		})
	return m
}

// vreRun builds the tree of one transaction (stored intent marked for removal, new revision, running = stored) and
// compares the renderings.
func vreRun(t *testing.T, ctx context.Context, scb *mockschemaclientbound.MockSchemaClientBound, existing, revision, others, deviceOnly []*sdcpb.Update, label string, report func(fn, clause, in, why string), nJ, nX, nP *int) {
	fnJ, fnX, fnP := "(*tree.sharedEntryAttributes).toJsonInternal", "(*tree.sharedEntryAttributes).toXmlInternal", "(*tree.RootEntry).ToProtoUpdates"
	mockCtrl := gomock.NewController(t)
	defer mockCtrl.Finish()
	owner := "owner1"
	ccMock := mockcacheclient.NewMockClient(mockCtrl)
	testhelper.ConfigureCacheClientMock(t, ccMock, []*cache.Update{}, []*cache.Update{}, []*cache.Update{}, [][]string{})
	root, err := NewTreeRoot(ctx, NewTreeContext(NewTreeCacheClient("dev1", ccMock), scb, owner))
	if err != nil {
		t.Fatal(err)
	}
	fExisting, fNew := NewUpdateInsertFlags(), NewUpdateInsertFlags()
	fNew.SetNewFlag()
	if err := vreAdd(ctx, root, existing, fExisting, owner, 5); err != nil {
		t.Fatal(err)
	}
	root.markOwnerDelete(owner, false)
	if err := vreAdd(ctx, root, revision, fNew, owner, 5); err != nil {
		t.Fatal(err)
	}
	if err := vreAdd(ctx, root, existing, fExisting, RunningIntentName, RunningValuesPrio); err != nil {
		t.Fatal(err)
	}
	// what only the device holds
	if err := vreAdd(ctx, root, deviceOnly, fExisting, RunningIntentName, RunningValuesPrio); err != nil {
		t.Fatal(err)
	}
	// what another, stronger intent holds
	if err := vreAdd(ctx, root, others, fExisting, "other", 3); err != nil {
		t.Fatal(err)
	}
	root.FinishInsertionPhase(ctx)

	listKeys := map[string][]string{}
	full, err := root.ToProtoUpdates(ctx, false)
	if err != nil {
		t.Fatal(err)
	}
	dels, err := root.ToProtoDeletes(ctx)
	if err != nil {
		t.Fatal(err)
	}
	for _, u := range full {
		vreLearnKeys(listKeys, u.GetPath())
	}
	for _, p := range dels {
		vreLearnKeys(listKeys, p)
	}
	// the running configuration knows the lists of entries that are removed as a whole
	for _, u := range existing {
		vreLearnKeys(listKeys, u.GetPath())
	}
	for _, onlyNew := range []bool{true, false} {
		in := fmt.Sprintf("%s,onlyNewOrUpdated=%v", label, onlyNew)
		upds := full
		if onlyNew {
			if upds, err = root.ToProtoUpdates(ctx, true); err != nil {
				t.Fatal(err)
			}
		}
		ref, identity := vreFromProto(upds, dels)
		*nP++
		for _, e := range ref.errs {
			report(fnP, "cross_encoding", in, e)
		}
		for name, f := range map[string]func(bool) (any, error){"json": root.ToJson, "json_ietf": root.ToJsonIETF} {
			*nJ++
			j, err := f(onlyNew)
			if err != nil {
				report(fnJ, "cross_encoding", in, name+": "+err.Error())
				continue
			}
			bad, known := vreCompare(ref, vreFromJSON(j, listKeys), identity, false, onlyNew)
			for _, w := range bad {
				report(fnJ, "cross_encoding", in+",encoding="+name, w)
			}
			for _, w := range known {
				report(fnP, "cross_encoding.known", in+",encoding="+name, w)
			}
		}
		for opt := 0; opt < 8; opt++ {
			*nX++
			honorNs, opNs, useRemove := opt&1 != 0, opt&2 != 0, opt&4 != 0
			doc, err := root.ToXML(onlyNew, honorNs, opNs, useRemove)
			if err != nil {
				report(fnX, "cross_encoding", in, "xml: "+err.Error())
				continue
			}
			xin := fmt.Sprintf("%s,honorNamespace=%v,operationWithNamespace=%v,useOperationRemove=%v", in, honorNs, opNs, useRemove)
			if honorNs {
				for _, w := range vreCheckNamespaces(ctx, scb, &doc.Element) {
					clause := "namespace_of_the_schema_node"
					if k := vreKnownNamespace(&doc.Element, w); k != "" {
						clause = k + ".known"
					}
					report(fnX, clause, xin, w)
				}
			}
			bad, known := vreCompare(ref, vreFromXML(&doc.Element, listKeys, opNs, useRemove), identity, true, onlyNew)
			for _, w := range bad {
				report(fnX, "cross_encoding", xin, w)
			}
			for _, w := range known {
				if strings.Contains(w, "operation=") {
					report(fnX, "cross_encoding.known", xin, w)
				} else {
					report(fnP, "cross_encoding.known", xin, w)
				}
			}
		}
	}
}

// vreCheckNamespaces: under XML namespace scoping every element resolves to the namespace of its schema node
func vreCheckNamespaces(ctx context.Context, scb *mockschemaclientbound.MockSchemaClientBound, doc *etree.Element) []string {
	var out []string
	var walk func(e *etree.Element, elems []*sdcpb.PathElem, ip string)
	walk = func(e *etree.Element, elems []*sdcpb.PathElem, ip string) {
		for _, c := range e.ChildElements() {
			if c.Tag == "" {
				continue
			}
			cel := append(append([]*sdcpb.PathElem{}, elems...), &sdcpb.PathElem{Name: c.Tag})
			rsp, err := scb.GetSchemaSdcpbPath(ctx, &sdcpb.Path{Elem: cel})
			if err != nil {
				out = append(out, fmt.Sprintf("%s/%s: no schema node (%v)", ip, c.Tag, err))
				continue
			}
			want := utils.GetNamespaceFromGetSchema(rsp.GetSchema())
			if got := c.NamespaceURI(); got != want {
				out = append(out, fmt.Sprintf("%s/%s resolves to namespace %q, its schema node lives in %q", ip, c.Tag, got, want))
			}
			walk(c, cel, ip+"/"+c.Tag)
		}
	}
	walk(doc, nil, "")
	return out
}

// vreKnownNamespace: the namespace problems listed as known findings, both pinned by golden strings of TestToXMLTable:
// a leaf deleted at the root level, and a leaf of type empty (an element without text, attributes or children), carry no xmlns
func vreKnownNamespace(doc *etree.Element, why string) string {
	path := strings.SplitN(why, " resolves", 2)[0]
	segs := strings.Split(strings.TrimPrefix(path, "/"), "/")
	e := doc
	for _, sg := range segs {
		if e = e.SelectElement(sg); e == nil {
			return ""
		}
	}
	if _, _, del := vreOperation(e); del && len(segs) == 1 {
		return "namespace_of_a_leaf_deleted_at_the_root_level"
	}
	if len(e.Attr) == 0 && len(e.ChildElements()) == 0 && e.Text() == "" {
		return "namespace_of_a_leaf_of_type_empty"
	}
	return ""
}

func TestVerifReplayEncodings(t *testing.T) {
	fnJ, fnX, fnP := "(*tree.sharedEntryAttributes).toJsonInternal", "(*tree.sharedEntryAttributes).toXmlInternal", "(*tree.RootEntry).ToProtoUpdates"
	var scenarios [][]int
	scenarios = append(scenarios, nil)
	for i := range vreEdits {
		scenarios = append(scenarios, []int{i})
	}
	for i := range vreEdits {
		for j := i + 1; j < len(vreEdits); j++ {
			scenarios = append(scenarios, []int{i, j})
		}
	}
	all := []int{}
	for i := range vreEdits {
		all = append(all, i)
	}
	scenarios = append(scenarios, all)
	nJ, nX, nP := 0, 0, 0
	reported := map[string]bool{}
	report := func(fn, clause, in string, why string) {
		// one line per distinct (function, clause, reason)
		k := fn + clause + why
		if strings.HasSuffix(clause, ".known") {
			k = fn + clause // one line per known finding
		}
		if reported[k] || len(reported) > 40 {
			return
		}
		reported[k] = true
		fmt.Printf("REPLAY-FAIL fn=%s clause=%s input=%s why=%s\n", fn, clause, in, why)
	}
	for _, sc := range scenarios {
		ctx := context.Background()
		mockCtrl := gomock.NewController(t)
		scb, err := testhelper.GetSchemaClientBound(t, mockCtrl)
		if err != nil {
			t.Fatal(err)
		}
		converter := utils.NewConverter(scb)
		existing, err := vreExpand(ctx, vreBase(), converter)
		if err != nil {
			t.Fatal(err)
		}
		c := vreBase()
		names := []string{}
		for _, i := range sc {
			vreEdits[i].f(c)
			names = append(names, vreEdits[i].name)
		}
		revision, err := vreExpand(ctx, c, converter)
		if err != nil {
			t.Fatal(err)
		}
		vreRun(t, ctx, scb, existing, revision, nil, nil, "edits="+strings.Join(names, "+"), report, &nJ, &nX, &nP)
		mockCtrl.Finish()
	}
	// the revision of the intent is empty: everything the intent (and the device) holds goes
	{
		ctx := context.Background()
		mockCtrl := gomock.NewController(t)
		scb, err := testhelper.GetSchemaClientBound(t, mockCtrl)
		if err != nil {
			t.Fatal(err)
		}
		existing, err := vreExpand(ctx, vreBase(), utils.NewConverter(scb))
		if err != nil {
			t.Fatal(err)
		}
		vreRun(t, ctx, scb, existing, nil, nil, nil, "edits=give-up-everything", report, &nJ, &nX, &nP)
		mockCtrl.Finish()
	}
	// a stronger intent of another owner holds case1 of the choice: the case the revision switches to loses and is not configured
	{
		ctx := context.Background()
		mockCtrl := gomock.NewController(t)
		scb, err := testhelper.GetSchemaClientBound(t, mockCtrl)
		if err != nil {
			t.Fatal(err)
		}
		converter := utils.NewConverter(scb)
		existing, err := vreExpand(ctx, vreBase(), converter)
		if err != nil {
			t.Fatal(err)
		}
		c := vreBase()
		c.Choices = &sdcio_schema.SdcioModel_Choices{Case2: &sdcio_schema.SdcioModel_Choices_Case2{Log: ygot.Bool(true)}}
		revision, err := vreExpand(ctx, c, converter)
		if err != nil {
			t.Fatal(err)
		}
		others, err := vreExpand(ctx, &sdcio_schema.Device{Choices: &sdcio_schema.SdcioModel_Choices{Case1: &sdcio_schema.SdcioModel_Choices_Case1{CaseElem: &sdcio_schema.SdcioModel_Choices_Case1_CaseElem{Elem: ygot.String("foocaseval")}}}}, converter)
		if err != nil {
			t.Fatal(err)
		}
		vreRun(t, ctx, scb, existing, revision, others, nil, "edits=switch-choice-case,another stronger intent holds the former case", report, &nJ, &nX, &nP)
		mockCtrl.Finish()
	}
	// the intent holds a list entry by its key only, the device additionally runs a leaf of its own in that entry; the
	// revision gives the entry up
	{
		ctx := context.Background()
		mockCtrl := gomock.NewController(t)
		scb, err := testhelper.GetSchemaClientBound(t, mockCtrl)
		if err != nil {
			t.Fatal(err)
		}
		converter := utils.NewConverter(scb)
		withEntry := vreBase()
		withEntry.Interface["ethernet-1/7"] = &sdcio_schema.SdcioModel_Interface{Name: ygot.String("ethernet-1/7")}
		withEntry.Doublekey[sdcio_schema.SdcioModel_Doublekey_Key{Key1: "k2.1", Key2: "k2.2"}] = &sdcio_schema.SdcioModel_Doublekey{Key1: ygot.String("k2.1"), Key2: ygot.String("k2.2")}
		existing, err := vreExpand(ctx, withEntry, converter)
		if err != nil {
			t.Fatal(err)
		}
		revision, err := vreExpand(ctx, vreBase(), converter)
		if err != nil {
			t.Fatal(err)
		}
		dev := &sdcio_schema.Device{
			Interface: map[string]*sdcio_schema.SdcioModel_Interface{"ethernet-1/7": {Name: ygot.String("ethernet-1/7"), Description: ygot.String("from the device")}},
			Doublekey: map[sdcio_schema.SdcioModel_Doublekey_Key]*sdcio_schema.SdcioModel_Doublekey{{Key1: "k2.1", Key2: "k2.2"}: {Key1: ygot.String("k2.1"), Key2: ygot.String("k2.2"), Mandato: ygot.String("from the device")}},
		}
		deviceOnly, err := vreExpand(ctx, dev, converter)
		if err != nil {
			t.Fatal(err)
		}
		vreRun(t, ctx, scb, existing, revision, nil, deviceOnly, "edits=give-up-key-only-entries,the device runs a leaf of its own in them", report, &nJ, &nX, &nP)
		mockCtrl.Finish()
	}
	// a second schema, for shapes the test schema does not have: presence containers that hold nothing but a defaulted
	// leaf, below a plain container and below a list entry, given up while their parents stay
	for mask := 0; mask < 16; mask++ {
		ctx := context.Background()
		mockCtrl := gomock.NewController(t)
		scb := vreSchema2(t, mockCtrl)
		mk := func(m int) []*sdcpb.Update {
			type pv struct {
				p []string
				v *sdcpb.TypedValue
			}
			str := func(x string) *sdcpb.TypedValue {
				return &sdcpb.TypedValue{Value: &sdcpb.TypedValue_StringVal{StringVal: x}}
			}
			empty := &sdcpb.TypedValue{Value: &sdcpb.TypedValue_EmptyVal{}}
			mtu := uint64(1500)
			if m&4 != 0 {
				mtu = 9000
			}
			l := []pv{{[]string{"system", "hostname"}, str("r1")}, {[]string{"interface", "eth0", "name"}, str("eth0")},
				{[]string{"interface", "eth0", "mtu"}, &sdcpb.TypedValue{Value: &sdcpb.TypedValue_UintVal{UintVal: mtu}}}}
			if m&1 == 0 {
				l = append(l, pv{[]string{"system", "lldp"}, empty})
			}
			if m&2 == 0 {
				l = append(l, pv{[]string{"interface", "eth0", "ipv4"}, empty})
			}
			if m&8 != 0 {
				l = append(l, pv{[]string{"interface", "eth1", "name"}, str("eth1")}, pv{[]string{"interface", "eth1", "ipv4"}, empty})
			}
			var out []*sdcpb.Update
			for _, x := range l {
				sp, err := scb.ToPath(ctx, x.p)
				if err != nil {
					t.Fatal(err)
				}
				out = append(out, &sdcpb.Update{Path: sp, Value: x.v})
			}
			return out
		}
		var names []string
		for i, n := range []string{"give-up-presence-container", "give-up-presence-container-in-list-entry", "update-leaf", "add-entry-with-presence-container"} {
			if mask&(1<<i) != 0 {
				names = append(names, n)
			}
		}
		vreRun(t, ctx, scb, mk(0), mk(mask), nil, nil, "schema=presence,edits="+strings.Join(names, "+"), report, &nJ, &nX, &nP)
		// nodes a second module augments into the plain container and into the list entries: added, changed, given up
		if mask == 0 || mask == 4 || mask == 8 {
			aug := func(gen int) []*sdcpb.Update {
				var out []*sdcpb.Update
				if gen == 0 {
					return out
				}
				str := func(x string) *sdcpb.TypedValue {
					return &sdcpb.TypedValue{Value: &sdcpb.TypedValue_StringVal{StringVal: x}}
				}
				tags := []*sdcpb.TypedValue{str("t1"), str("t2")}
				if gen == 2 {
					tags = []*sdcpb.TypedValue{str("t1"), str("t3")}
				}
				for _, x := range []struct {
					p []string
					v *sdcpb.TypedValue
				}{
					{[]string{"system", "sysextra"}, str(fmt.Sprintf("s%d", gen))},
					{[]string{"interface", "eth0", "extra"}, str(fmt.Sprintf("e%d", gen))},
					{[]string{"interface", "eth0", "tags"}, &sdcpb.TypedValue{Value: &sdcpb.TypedValue_LeaflistVal{LeaflistVal: &sdcpb.ScalarArray{Element: tags}}}},
					{[]string{"interface", "eth0", "auc", "v"}, str(fmt.Sprintf("v%d", gen))},
					{[]string{"system", "sysflag"}, &sdcpb.TypedValue{Value: &sdcpb.TypedValue_EmptyVal{}}},
					{[]string{"interface", "eth0", "flag"}, &sdcpb.TypedValue{Value: &sdcpb.TypedValue_EmptyVal{}}},
				} {
					sp, err := scb.ToPath(ctx, x.p)
					if err != nil {
						t.Fatal(err)
					}
					out = append(out, &sdcpb.Update{Path: sp, Value: x.v})
				}
				return out
			}
			for _, g := range [][2]int{{0, 1}, {1, 2}, {1, 0}, {1, 1}} {
				label := fmt.Sprintf("schema=presence+augmenting module,edits=%s,augmented nodes=%s", strings.Join(names, "+"),
					map[[2]int]string{{0, 1}: "added", {1, 2}: "changed", {1, 0}: "given up", {1, 1}: "kept"}[g])
				vreRun(t, ctx, scb, append(mk(0), aug(g[0])...), append(mk(mask), aug(g[1])...), nil, nil, label, report, &nJ, &nX, &nP)
			}
		}
		mockCtrl.Finish()
	}
	fmt.Printf("REPLAY-CASES fn=%s n=%d\n", fnJ, nJ)
	fmt.Printf("REPLAY-CASES fn=%s n=%d\n", fnX, nX)
	fmt.Printf("REPLAY-CASES fn=%s n=%d\n", fnP, nP)
}

// TestVerifReplayNestedChoice: bounded stand-in for the part of C08 the repository's test schema cannot show: a choice
// whose case member is a container that holds another choice (container top of the stand-in schema). One intent is
// set by the transaction, another one is stored (intended store index + running); the case of the intent with the
// better priority has to be what the device is left with, wherever below the case member its values sit.
func TestVerifReplayNestedChoice(t *testing.T) {
	fns := []string{"(*tree.sharedEntryAttributes).getHighestPrecedenceValueOfBranch", "(*tree.sharedEntryAttributes).populateChoiceCaseResolvers"}
	str := func(x string) []byte {
		b, _ := proto.Marshal(&sdcpb.TypedValue{Value: &sdcpb.TypedValue_StringVal{StringVal: x}})
		return b
	}
	type leaf struct {
		path []string
		val  string
	}
	caseA := [][]leaf{
		{{[]string{"top", "ca", "x"}, "vx"}},
		{{[]string{"top", "ca", "y"}, "vy"}},
		{{[]string{"top", "ca", "plain"}, "vp"}},
		{{[]string{"top", "ca", "x"}, "vx"}, {[]string{"top", "ca", "plain"}, "vp"}},
	}
	caseB := []leaf{{[]string{"top", "bl"}, "vbl"}}
	n := 0
	for _, newPrio := range []int32{5, 20} {
		for ai, a := range caseA {
			for _, newHoldsA := range []bool{true, false} {
				n++
				ctx := context.Background()
				mockCtrl := gomock.NewController(t)
				scb := vreSchema2(t, mockCtrl)
				// the transaction's intent and the stored one
				newLeaves, storedLeaves := a, caseB
				if !newHoldsA {
					newLeaves, storedLeaves = caseB, a
				}
				var stored, running []*cache.Update
				for _, l := range storedLeaves {
					stored = append(stored, cache.NewUpdate(l.path, str(l.val), 10, "stored", 0))
					running = append(running, cache.NewUpdate(l.path, str(l.val), RunningValuesPrio, RunningIntentName, 0))
				}
				ccMock := mockcacheclient.NewMockClient(mockCtrl)
				testhelper.ConfigureCacheClientMock(t, ccMock, stored, running, []*cache.Update{}, [][]string{})
				root, err := NewTreeRoot(ctx, NewTreeContext(NewTreeCacheClient("dev1", ccMock), scb, "new"))
				if err != nil {
					t.Fatal(err)
				}
				fNew, fExisting := NewUpdateInsertFlags(), NewUpdateInsertFlags()
				fNew.SetNewFlag()
				for _, l := range newLeaves {
					if _, err := root.AddCacheUpdateRecursive(ctx, cache.NewUpdate(l.path, str(l.val), newPrio, "new", 0), fNew); err != nil {
						t.Fatal(err)
					}
				}
				for _, u := range running {
					if _, err := root.AddCacheUpdateRecursive(ctx, u, fExisting); err != nil {
						t.Fatal(err)
					}
				}
				root.FinishInsertionPhase(ctx)
				// the device after the change: running, minus the deletes, plus the updates
				device := map[string]string{}
				for _, l := range storedLeaves {
					device[strings.Join(l.path, "/")] = l.val
				}
				dels, err := root.ToProtoDeletes(ctx)
				if err != nil {
					t.Fatal(err)
				}
				for _, d := range dels {
					dp := utils.ToXPath(d, false)
					for k := range device {
						if k == dp || strings.HasPrefix(k, dp+"/") {
							delete(device, k)
						}
					}
				}
				upds, err := root.ToProtoUpdates(ctx, true)
				if err != nil {
					t.Fatal(err)
				}
				for _, u := range upds {
					device[utils.ToXPath(u.GetPath(), false)] = u.GetValue().GetStringVal()
				}
				want := map[string]string{}
				winner := storedLeaves
				if newPrio < 10 {
					winner = newLeaves
				}
				for _, l := range winner {
					want[strings.Join(l.path, "/")] = l.val
				}
				if fmt.Sprint(device) != fmt.Sprint(want) {
					holder := map[bool]string{true: "a (nested choice below its member)", false: "b"}
					for _, fn := range fns {
						fmt.Printf("REPLAY-FAIL fn=%s clause=the_best_priority_decides_the_case input=schema=nested choice,new intent@%d holds case %s,stored intent@10 holds the other case,case a content #%d why=the device is left with %v, the case of the better priority is %v\n",
							fn, newPrio, holder[newHoldsA], ai, device, want)
					}
				}
				mockCtrl.Finish()
			}
		}
	}
	// a case with two members (container cons/mcase: case y { y1 y2 }, case z { z1 }): when the winning case changes,
	// every member of the former case goes, whoever holds it: another intent, or the device on its own
	for _, sc := range []struct {
		name            string
		stored, onlyDev []string // members of case y the stored intent@10 holds / the device holds on its own
	}{
		{"the stored intent holds y1, the device runs y2 on its own", []string{"y1"}, []string{"y2"}},
		{"the stored intent holds y1 and y2", []string{"y1", "y2"}, nil},
		{"the stored intent holds y2, the device runs y1 on its own", []string{"y2"}, []string{"y1"}},
	} {
		n++
		ctx := context.Background()
		mockCtrl := gomock.NewController(t)
		scb := vreSchema2(t, mockCtrl)
		var stored, running []*cache.Update
		device := map[string]string{}
		for _, m := range sc.stored {
			stored = append(stored, cache.NewUpdate([]string{"cons", "mcase", m}, str("v"+m), 10, "stored", 0))
		}
		for _, m := range append(append([]string{}, sc.stored...), sc.onlyDev...) {
			running = append(running, cache.NewUpdate([]string{"cons", "mcase", m}, str("v"+m), RunningValuesPrio, RunningIntentName, 0))
			device["cons/mcase/"+m] = "v" + m
		}
		ccMock := mockcacheclient.NewMockClient(mockCtrl)
		testhelper.ConfigureCacheClientMock(t, ccMock, stored, running, []*cache.Update{}, [][]string{})
		root, err := NewTreeRoot(ctx, NewTreeContext(NewTreeCacheClient("dev1", ccMock), scb, "new"))
		if err != nil {
			t.Fatal(err)
		}
		fNew, fExisting := NewUpdateInsertFlags(), NewUpdateInsertFlags()
		fNew.SetNewFlag()
		if _, err := root.AddCacheUpdateRecursive(ctx, cache.NewUpdate([]string{"cons", "mcase", "z1"}, str("vz1"), 5, "new", 0), fNew); err != nil {
			t.Fatal(err)
		}
		// (as in a transaction: the device's values are in the tree; the stored intent does not share a path with the new
		// one, it is known from the index of the intended store only)
		for _, u := range running {
			if _, err := root.AddCacheUpdateRecursive(ctx, u, fExisting); err != nil {
				t.Fatal(err)
			}
		}
		root.FinishInsertionPhase(ctx)
		dels, err := root.ToProtoDeletes(ctx)
		if err != nil {
			t.Fatal(err)
		}
		for _, d := range dels {
			dp := utils.ToXPath(d, false)
			for k := range device {
				if k == dp || strings.HasPrefix(k, dp+"/") {
					delete(device, k)
				}
			}
		}
		upds, err := root.ToProtoUpdates(ctx, true)
		if err != nil {
			t.Fatal(err)
		}
		for _, u := range upds {
			device[utils.ToXPath(u.GetPath(), false)] = u.GetValue().GetStringVal()
		}
		want := map[string]string{"cons/mcase/z1": "vz1"}
		if fmt.Sprint(device) != fmt.Sprint(want) {
			for _, fn := range append([]string{"(*tree.sharedEntryAttributes).getRegularDeletes"}, fns...) {
				fmt.Printf("REPLAY-FAIL fn=%s clause=every_member_of_the_former_case_is_walked input=schema=case with two members,new intent@5 sets case z,%s why=the device is left with %v, the case of the better priority is %v\n", fn, sc.name, device, want)
			}
		}
		mockCtrl.Finish()
	}
	// a choice directly in a list: the case members are children of the key-level entry, the resolvers sit on the list
	{
		type sc struct {
			name    string
			stored  []leaf // intent "stored", priority 5, also what the device runs
			newOnes []leaf // intent "new", priority 10
			want    map[string]string
		}
		for _, c := range []sc{
			{"a stronger stored intent holds member a of the entry, the new intent sets member b",
				[]leaf{{[]string{"chl", "k1", "name"}, "k1"}, {[]string{"chl", "k1", "a"}, "va"}},
				[]leaf{{[]string{"chl", "k1", "name"}, "k1"}, {[]string{"chl", "k1", "b"}, "vb"}},
				map[string]string{"chl/k1/name": "k1", "chl/k1/a": "va"}},
			{"entries whose key values are the names of the case members",
				nil,
				[]leaf{{[]string{"chl", "a", "name"}, "a"}, {[]string{"chl", "a", "a"}, "1"}, {[]string{"chl", "b", "name"}, "b"}, {[]string{"chl", "b", "a"}, "2"}},
				map[string]string{"chl/a/name": "a", "chl/a/a": "1", "chl/b/name": "b", "chl/b/a": "2"}},
		} {
			n++
			ctx := context.Background()
			mockCtrl := gomock.NewController(t)
			scb := vreSchema2(t, mockCtrl)
			var stored, running []*cache.Update
			for _, l := range c.stored {
				stored = append(stored, cache.NewUpdate(l.path, str(l.val), 5, "stored", 0))
				running = append(running, cache.NewUpdate(l.path, str(l.val), RunningValuesPrio, RunningIntentName, 0))
			}
			ccMock := mockcacheclient.NewMockClient(mockCtrl)
			testhelper.ConfigureCacheClientMock(t, ccMock, stored, running, []*cache.Update{}, [][]string{})
			root, err := NewTreeRoot(ctx, NewTreeContext(NewTreeCacheClient("dev1", ccMock), scb, "new"))
			if err != nil {
				t.Fatal(err)
			}
			fNew, fExisting := NewUpdateInsertFlags(), NewUpdateInsertFlags()
			fNew.SetNewFlag()
			for _, l := range c.newOnes {
				if _, err := root.AddCacheUpdateRecursive(ctx, cache.NewUpdate(l.path, str(l.val), 10, "new", 0), fNew); err != nil {
					t.Fatal(err)
				}
			}
			// what the transaction pipeline loads next to it: the other intents' values for the paths of the new one, and running
			for _, u := range stored {
				if _, err := root.AddCacheUpdateRecursive(ctx, u, fExisting); err != nil {
					t.Fatal(err)
				}
			}
			for _, u := range running {
				if _, err := root.AddCacheUpdateRecursive(ctx, u, fExisting); err != nil {
					t.Fatal(err)
				}
			}
			root.FinishInsertionPhase(ctx)
			device := map[string]string{}
			for _, l := range c.stored {
				device[strings.Join(l.path, "/")] = l.val
			}
			dels, err := root.ToProtoDeletes(ctx)
			if err != nil {
				t.Fatal(err)
			}
			for _, d := range dels {
				dp := strings.Join(utils.ToStrings(d, false, false), "/")
				for k := range device {
					if k == dp || strings.HasPrefix(k, dp+"/") {
						delete(device, k)
					}
				}
			}
			upds, err := root.ToProtoUpdates(ctx, true)
			if err != nil {
				t.Fatal(err)
			}
			for _, u := range upds {
				device[strings.Join(utils.ToStrings(u.GetPath(), false, false), "/")] = u.GetValue().GetStringVal()
			}
			if fmt.Sprint(device) != fmt.Sprint(c.want) {
				for _, fn := range fns {
					fmt.Printf("REPLAY-FAIL fn=%s clause=choice_in_a_list_entry_is_resolved.known input=schema=list with a choice,%s why=the device is left with %v, the live intents merge to %v\n", fn, c.name, device, c.want)
				}
			}
			mockCtrl.Finish()
		}
	}
	for _, fn := range fns {
		fmt.Printf("REPLAY-CASES fn=%s n=%d\n", fn, n)
	}
}

// TestVerifReplaySchema2Validation: bounded stand-in for constraint kinds of C04 the repository's test schema has no
// node for: must expressions over signed and decimal values, a leafref whose path predicate is fed from a number, a
// leafref with a default. The verdict of root.Validate against a hand-written expectation.
func TestVerifReplaySchema2Validation(t *testing.T) {
	fn := "(*tree.RootEntry).Validate"
	str := func(x string) *sdcpb.TypedValue {
		return &sdcpb.TypedValue{Value: &sdcpb.TypedValue_StringVal{StringVal: x}}
	}
	i := func(x int64) *sdcpb.TypedValue { return &sdcpb.TypedValue{Value: &sdcpb.TypedValue_IntVal{IntVal: x}} }
	u := func(x uint64) *sdcpb.TypedValue {
		return &sdcpb.TypedValue{Value: &sdcpb.TypedValue_UintVal{UintVal: x}}
	}
	dec := func(digits int64, prec uint32) *sdcpb.TypedValue {
		return &sdcpb.TypedValue{Value: &sdcpb.TypedValue_DecimalVal{DecimalVal: &sdcpb.Decimal64{Digits: digits, Precision: prec}}}
	}
	type pv struct {
		p []string
		v *sdcpb.TypedValue
	}
	ll := func(xs ...string) *sdcpb.TypedValue {
		var el []*sdcpb.TypedValue
		for _, x := range xs {
			el = append(el, str(x))
		}
		return &sdcpb.TypedValue{Value: &sdcpb.TypedValue_LeaflistVal{LeaflistVal: &sdcpb.ScalarArray{Element: el}}}
	}
	scenarios := []struct {
		name  string
		fns   []string
		conf  []pv
		valid bool
		known string // != "": a recorded finding, the clause it is listed under
	}{
		// constraint kinds that are not (or wrongly) enforced: recorded as known findings
		{"leaf-list of leafrefs holding a value without a target", nil, []pv{{[]string{"cons", "refs"}, ll("ghost")}}, false, "leaflist_leafref_is_checked"},
		{"must on a list that refers to a child leaf of the entry, satisfied", nil, []pv{{[]string{"cons", "tenant", "t1", "name"}, str("t1")}, {[]string{"cons", "tenant", "t1", "descr"}, str("fine")}}, true, "must_on_a_list_is_per_entry"},
		{"union of two pattern-restricted strings, value matches neither", nil, []pv{{[]string{"cons", "uni"}, str("zzz")}}, false, "union_member_restrictions_are_checked"},
		{"leaf-list of strings with a length restriction, an entry too long", []string{"(*tree.sharedEntryAttributes).validateLength"}, []pv{{[]string{"cons", "tags"}, ll("ok", "toolong")}}, false, ""},
		{"leaf-list of strings with a length restriction, every entry within", []string{"(*tree.sharedEntryAttributes).validateLength"}, []pv{{[]string{"cons", "tags"}, ll("ok", "abc")}}, true, ""},
		{"leaf-list of strings with a pattern, an entry that does not match", []string{"(*tree.sharedEntryAttributes).validatePattern"}, []pv{{[]string{"cons", "ptags"}, ll("aaa", "zzz")}}, false, ""},
		{"leaf-list of strings with a pattern, every entry matches", []string{"(*tree.sharedEntryAttributes).validatePattern"}, []pv{{[]string{"cons", "ptags"}, ll("aaa", "a")}}, true, ""},
		{"must \"../flag = 'false'\" with the boolean leaf set to false", nil, []pv{{[]string{"val", "flag"}, &sdcpb.TypedValue{Value: &sdcpb.TypedValue_BoolVal{BoolVal: false}}}, {[]string{"val", "dep"}, str("x")}}, true, "boolean_leaf_compares_as_its_text"},
		{"mandatory choice with one case filled", []string{"(*tree.sharedEntryAttributes).validateMandatory", "(*tree.sharedEntryAttributes).validateMandatoryWithKeys"}, []pv{{[]string{"cons", "mc", "other"}, str("o")}, {[]string{"cons", "mc", "x1"}, str("x")}}, true, ""},
		{"mandatory choice with the other case filled", []string{"(*tree.sharedEntryAttributes).validateMandatory", "(*tree.sharedEntryAttributes).validateMandatoryWithKeys"}, []pv{{[]string{"cons", "mc", "x2"}, str("x")}}, true, ""},
		{"mandatory choice with no case filled", []string{"(*tree.sharedEntryAttributes).validateMandatory", "(*tree.sharedEntryAttributes).validateMandatoryWithKeys"}, []pv{{[]string{"cons", "mc", "other"}, str("o")}}, false, ""},
		{"mandatory leaf of the chosen case missing", nil, []pv{{[]string{"cons", "mcase", "y2"}, str("y")}}, false, "mandatory_leaf_in_a_case_is_enforced"},
		// a must whose path leaves a list entry: '..' from the key levels steps over all of them, whatever the number of keys
		{"must '../../settings/mode' below an entry with two keys, satisfied", []string{"(*tree.yangParserEntryAdapter).Navigate"}, []pv{{[]string{"mk", "settings", "mode"}, str("manual")}, {[]string{"mk", "area", "a", "z", "id"}, str("a")}, {[]string{"mk", "area", "a", "z", "zone"}, str("z")}, {[]string{"mk", "area", "a", "z", "cost"}, u(5)}}, true, ""},
		{"must '../../settings/mode' below an entry with two keys, violated", []string{"(*tree.yangParserEntryAdapter).Navigate"}, []pv{{[]string{"mk", "settings", "mode"}, str("auto")}, {[]string{"mk", "area", "a", "z", "id"}, str("a")}, {[]string{"mk", "area", "a", "z", "zone"}, str("z")}, {[]string{"mk", "area", "a", "z", "cost"}, u(5)}}, false, ""},
		{"must '../../../settings/mode' from a container of an entry with two keys, satisfied", []string{"(*tree.yangParserEntryAdapter).Navigate"}, []pv{{[]string{"mk", "settings", "mode"}, str("manual")}, {[]string{"mk", "area", "a", "z", "id"}, str("a")}, {[]string{"mk", "area", "a", "z", "zone"}, str("z")}, {[]string{"mk", "area", "a", "z", "timers", "hello"}, u(5)}}, true, ""},
		{"leafref with two key predicates into a list whose key statement is not in alphabetical order, target exists", []string{"(*tree.sharedEntryAttributes).FilterChilds", "(*tree.sharedEntryAttributes).NavigateLeafRef"}, []pv{{[]string{"mk", "rev", "i1", "z1", "id"}, str("i1")}, {[]string{"mk", "rev", "i1", "z1", "zone"}, str("z1")}, {[]string{"mk", "rev", "i1", "z1", "val"}, str("v")}, {[]string{"mk", "rev-id"}, str("i1")}, {[]string{"mk", "rev-zone"}, str("z1")}, {[]string{"mk", "rev-ref"}, str("v")}}, true, ""},
		{"the same with the key values of the reference exchanged: no such entry", []string{"(*tree.sharedEntryAttributes).FilterChilds", "(*tree.sharedEntryAttributes).NavigateLeafRef"}, []pv{{[]string{"mk", "rev", "i1", "z1", "id"}, str("i1")}, {[]string{"mk", "rev", "i1", "z1", "zone"}, str("z1")}, {[]string{"mk", "rev", "i1", "z1", "val"}, str("v")}, {[]string{"mk", "rev-id"}, str("z1")}, {[]string{"mk", "rev-zone"}, str("i1")}, {[]string{"mk", "rev-ref"}, str("v")}}, false, ""},
		{"must '../../settings/mode' below an entry with one key, satisfied", []string{"(*tree.yangParserEntryAdapter).Navigate"}, []pv{{[]string{"mk", "settings", "mode"}, str("manual")}, {[]string{"mk", "one", "a", "id"}, str("a")}, {[]string{"mk", "one", "a", "cost"}, u(5)}}, true, ""},
		{"must '../../settings/mode' below an entry with one key, violated", []string{"(*tree.yangParserEntryAdapter).Navigate"}, []pv{{[]string{"mk", "settings", "mode"}, str("auto")}, {[]string{"mk", "one", "a", "id"}, str("a")}, {[]string{"mk", "one", "a", "cost"}, u(5)}}, false, ""},
		{"must '. > 5' on a uint32 of 10", nil, []pv{{[]string{"val", "usize"}, u(10)}}, true, ""},
		{"must '. > 5' on a uint32 of 3", nil, []pv{{[]string{"val", "usize"}, u(3)}}, false, ""},
		{"must '. > 5' on an int32 of 10", []string{"(*tree.yangParserEntryAdapter).valueToDatum"}, []pv{{[]string{"val", "size"}, i(10)}}, true, ""},
		{"must '. > 5' on an int32 of -10", []string{"(*tree.yangParserEntryAdapter).valueToDatum"}, []pv{{[]string{"val", "size"}, i(-10)}}, false, ""},
		{"must '. > 1.5' on a decimal64 of 2.50", []string{"(*tree.yangParserEntryAdapter).valueToDatum"}, []pv{{[]string{"val", "dec"}, dec(250, 2)}}, true, ""},
		{"must '. > 1.5' on a decimal64 of 1.25", []string{"(*tree.yangParserEntryAdapter).valueToDatum"}, []pv{{[]string{"val", "dec"}, dec(125, 2)}}, false, ""},
		{"must '../neg < 0' with an int8 of -4", []string{"(*tree.yangParserEntryAdapter).valueToDatum"}, []pv{{[]string{"val", "neg"}, i(-4)}, {[]string{"val", "negcheck"}, str("x")}}, true, ""},
		{"must '../neg < 0' with an int8 of 4", []string{"(*tree.yangParserEntryAdapter).valueToDatum"}, []pv{{[]string{"val", "neg"}, i(4)}, {[]string{"val", "negcheck"}, str("x")}}, false, ""},
		{"leafref with a predicate fed from a uint32 leaf, target exists", []string{"(*tree.sharedEntryAttributes).resolve_leafref_key_path", "(*tree.sharedEntryAttributes).NavigateLeafRef", "(*tree.sharedEntryAttributes).validateLeafRefs"},
			[]pv{{[]string{"val", "sub", "7", "id"}, u(7)}, {[]string{"val", "sub", "7", "kind"}, str("k7")}, {[]string{"val", "subid"}, u(7)}, {[]string{"val", "subkind"}, str("k7")}}, true, ""},
		{"leafref with a predicate fed from a uint32 leaf, target is another entry's", []string{"(*tree.sharedEntryAttributes).resolve_leafref_key_path", "(*tree.sharedEntryAttributes).NavigateLeafRef", "(*tree.sharedEntryAttributes).validateLeafRefs"},
			[]pv{{[]string{"val", "sub", "7", "id"}, u(7)}, {[]string{"val", "sub", "7", "kind"}, str("k7")}, {[]string{"val", "sub", "3", "id"}, u(3)}, {[]string{"val", "sub", "3", "kind"}, str("k3")}, {[]string{"val", "subid"}, u(3)}, {[]string{"val", "subkind"}, str("k7")}}, false, ""},
		{"leafref with a default that resolves", []string{"(*tree.sharedEntryAttributes).validateLeafRefs"}, []pv{{[]string{"dr", "on"}, str("x")}, {[]string{"dr", "target"}, str("nope")}}, true, ""},
		{"leafref with a default that does not resolve", []string{"(*tree.sharedEntryAttributes).validateLeafRefs"}, []pv{{[]string{"dr", "on"}, str("x")}}, false, ""},
	}
	n := 0
	for _, sc := range scenarios {
		n++
		ctx := context.Background()
		mockCtrl := gomock.NewController(t)
		scb := vreSchema2(t, mockCtrl)
		ccMock := mockcacheclient.NewMockClient(mockCtrl)
		testhelper.ConfigureCacheClientMock(t, ccMock, []*cache.Update{}, []*cache.Update{}, []*cache.Update{}, [][]string{})
		root, err := NewTreeRoot(ctx, NewTreeContext(NewTreeCacheClient("dev1", ccMock), scb, "owner1"))
		if err != nil {
			t.Fatal(err)
		}
		fNew := NewUpdateInsertFlags()
		fNew.SetNewFlag()
		for _, x := range sc.conf {
			b, _ := proto.Marshal(x.v)
			if _, err := root.AddCacheUpdateRecursive(ctx, cache.NewUpdate(x.p, b, 5, "owner1", 0), fNew); err != nil {
				t.Fatal(err)
			}
		}
		root.FinishInsertionPhase(ctx)
		fns := append([]string{fn}, sc.fns...)
		type verdict struct {
			errs  []string
			panic any
		}
		done := make(chan verdict, 1)
		go func() {
			defer func() {
				if r := recover(); r != nil {
					done <- verdict{panic: r}
				}
			}()
			done <- verdict{errs: root.Validate(ctx, &config.Validation{DisableConcurrency: true}).ErrorsStr()}
		}()
		select {
		case v := <-done:
			if v.panic != nil {
				for _, f := range fns {
					fmt.Printf("REPLAY-FAIL fn=%s clause=panic input=schema=stand-in,configuration=%s panic=%v\n", f, sc.name, v.panic)
				}
			} else if (len(v.errs) == 0) != sc.valid {
				clause := "verdict_is_validity_of_the_result"
				if sc.known != "" {
					clause = sc.known + ".known"
				}
				for _, f := range fns {
					fmt.Printf("REPLAY-FAIL fn=%s clause=%s input=schema=stand-in,configuration=%s why=%d error(s) %v, the configuration is valid=%v\n", f, clause, sc.name, len(v.errs), v.errs, sc.valid)
				}
			} else if sc.known != "" {
				fmt.Printf("REPLAY-FAIL fn=%s clause=known_finding_is_stale input=schema=stand-in,configuration=%s why=the recorded finding %s no longer shows: remove it from the known findings\n", fn, sc.name, sc.known)
			}
		case <-time.After(10 * time.Second):
			for _, f := range fns {
				fmt.Printf("REPLAY-FAIL fn=%s clause=hang input=schema=stand-in,configuration=%s why=no verdict after 10 s\n", f, sc.name)
			}
		}
		mockCtrl.Finish()
	}
	fmt.Printf("REPLAY-CASES fn=%s n=%d\n", fn, n)
}
