package utils

// Bounded stand-in (injected via `go test -overlay`) for the string forms of paths (C11) and the path parser's
// robustness (C20): ParsePath never panics on short strings over the separator alphabet, and a path written by
// ToXPath parses back to itself for key values containing the characters the property names.

import (
	"fmt"
	"strings"
	"testing"

	sdcpb "github.com/sdcio/sdc-protos/sdcpb"
)

func vrpSame(a, b *sdcpb.Path) bool {
	if a.GetOrigin() != b.GetOrigin() || len(a.GetElem()) != len(b.GetElem()) {
		return false
	}
	for i, e := range a.GetElem() {
		o := b.GetElem()[i]
		if e.GetName() != o.GetName() || len(e.GetKey()) != len(o.GetKey()) {
			return false
		}
		for k, v := range e.GetKey() {
			if ov, ok := o.GetKey()[k]; !ok || ov != v {
				return false
			}
		}
	}
	return true
}

func TestVerifReplayPathStrings(t *testing.T) {
	fnP, fnX, fnK := "utils.ParsePath", "utils.ToXPath", "utils.parseXPathKeys"
	// 1. no panic: every string of length <= 5 over the separator alphabet
	alphabet := []string{"a", "/", ":", "[", "]", "=", "\\", " "}
	n := 0
	var gen func(prefix string, depth int)
	gen = func(prefix string, depth int) {
		n++
		func() {
			defer func() {
				if r := recover(); r != nil {
					fmt.Printf("REPLAY-FAIL fn=%s clause=panic input=path string %q panic=%v\n", fnP, prefix, r)
				}
			}()
			ParsePath(prefix)
			StripPathElemPrefix(prefix)
			CompletePathFromString(prefix)
		}()
		if depth == 0 {
			return
		}
		for _, c := range alphabet {
			gen(prefix+c, depth-1)
		}
	}
	gen("", 5)
	fmt.Printf("REPLAY-CASES fn=%s n=%d\n", fnP, n)
	// 2. round trip through the string form
	vals := []string{"a", "a b", "a/b", "a_b", "a:b", "a=b", "a=b=c", "=", "x=", "cn=core,dc=lab", "ethernet-1/1", "a\\b", "\"uplink\"", "'x'", "x\"y\"", "\""}
	brackets := []string{"a]b", "a[b", "[x]"}
	m, k := 0, 0
	check := func(p *sdcpb.Path, known bool) {
		m++
		s := ToXPath(p, false)
		back, err := ParsePath(s)
		clause := "string_form_round_trip"
		if known {
			clause += ".known" // recorded finding: the origin is written as "origin:" + elements, which ParsePath reads as an element name
		}
		if err != nil {
			fmt.Printf("REPLAY-FAIL fn=%s clause=%s input=string form %q why=does not parse: %v\n", fnX, clause, s, err)
			return
		}
		if !vrpSame(p, back) {
			fmt.Printf("REPLAY-FAIL fn=%s clause=%s input=string form %q why=parses to %q\n", fnX, clause, s, ToXPath(back, false))
		}
	}
	for _, v1 := range vals {
		check(&sdcpb.Path{Elem: []*sdcpb.PathElem{{Name: "interface", Key: map[string]string{"name": v1}}, {Name: "description"}}}, false)
		for _, v2 := range vals {
			check(&sdcpb.Path{Elem: []*sdcpb.PathElem{{Name: "doublekey", Key: map[string]string{"key1": v1, "key2": v2}}, {Name: "mandato"}}}, false)
		}
	}
	// recorded finding: key values the string form cannot carry (ParsePath trims spaces around a key value, as leafref paths
	// written in YANG need it to; it refuses an empty value and a value ending in a backslash; "a:/b" in a relative path is
	// taken for an origin)
	for _, v := range []string{" a", "a ", "", "a\\", "a:/b"} {
		check(&sdcpb.Path{Elem: []*sdcpb.PathElem{{Name: "interface", Key: map[string]string{"name": v}}, {Name: "description"}}}, true)
	}
	for _, v := range brackets {
		check(&sdcpb.Path{Elem: []*sdcpb.PathElem{{Name: "interface", Key: map[string]string{"name": v}}, {Name: "description"}}}, false)
	}
	check(&sdcpb.Path{Origin: "openconfig", Elem: []*sdcpb.PathElem{{Name: "interface", Key: map[string]string{"name": "e1"}}}}, true)
	fmt.Printf("REPLAY-CASES fn=%s n=%d\n", fnX, m)
	// 3. key predicates: name = everything up to the first '=', value = everything after it
	for _, c := range []struct{ in, key, val string }{{"[name=a]", "name", "a"}, {"[name=a=b]", "name", "a=b"}, {"[name=cn=core,dc=lab]", "name", "cn=core,dc=lab"}, {"[k1=a=1][k2=b]", "k1", "a=1"}, {"[name=a/b]", "name", "a/b"}, {"[name=x=]", "name", "x="}} {
		k++
		kvs, err := parseXPathKeys(c.in)
		if err != nil || kvs[c.key] != c.val {
			fmt.Printf("REPLAY-FAIL fn=%s clause=value_is_everything_after_the_first_equal_sign input=%q why=parsed to %v (err %v), key %s should be %q\n", fnK, c.in, kvs, err, c.key, c.val)
		}
	}
	fmt.Printf("REPLAY-CASES fn=%s n=%d\n", fnK, k)
	// prefixes are stripped from the paths of device notifications: a key value that merely contains a ':' is not a prefixed name
	fnSP := "utils.StripPathElemPrefixPath"
	sp := 0
	for _, v := range []string{"2001:db8::1", "00:11:22:33:44:55", "http://h/p:q", "plain", "pfx:name"} {
		sp++
		p := &sdcpb.Path{Elem: []*sdcpb.PathElem{{Name: "m:list", Key: map[string]string{"m:k": v}}, {Name: "m:leaf"}}}
		StripPathElemPrefixPath(p)
		want := v
		if v == "pfx:name" {
			want = "name" // an identity given with its prefix
		}
		if got := p.GetElem()[0].GetKey()["k"]; got != want || p.GetElem()[0].GetName() != "list" || p.GetElem()[1].GetName() != "leaf" {
			clause := "key_values_are_kept"
			if strings.Count(v, ":") > 1 || strings.Contains(v, "//") {
				clause += ".known" // recorded finding: everything up to the first ':' of each '/'-separated piece of a key value is dropped
			}
			fmt.Printf("REPLAY-FAIL fn=%s clause=%s input=list[k=%s]/leaf with module prefixes why=stripped to %s\n", fnSP, clause, v, ToXPath(p, false))
		}
	}
	fmt.Printf("REPLAY-CASES fn=%s n=%d\n", fnSP, sp)
	// the element sequence of a path: the key values of an entry follow in the order of their key names, however many
	// keys the list has and however often it is asked (the keys sit in a map)
	fnS := "utils.sortedVals"
	q := 0
	for nk := 1; nk <= 5; nk++ {
		keys := map[string]string{}
		var want []string
		for i := 0; i < nk; i++ {
			// names in ascending order, values in descending order
			keys[fmt.Sprintf("k%d", i)] = fmt.Sprintf("v%d", 9-i)
			want = append(want, fmt.Sprintf("v%d", 9-i))
		}
		p := &sdcpb.Path{Elem: []*sdcpb.PathElem{{Name: "list", Key: keys}, {Name: "leaf"}}}
		wantSeq := append(append([]string{"list"}, want...), "leaf")
		for run := 0; run < 40; run++ {
			q++
			if got := ToStrings(p, false, false); strings.Join(got, " ") != strings.Join(wantSeq, " ") {
				for _, f := range []string{fnS, "utils.ToStrings"} {
					fmt.Printf("REPLAY-FAIL fn=%s clause=values_follow_keys input=list entry with %d keys %v (run %d) why=element sequence %v, by key name it is %v\n", f, nk, keys, run, got, wantSeq)
				}
				break
			}
		}
	}
	fmt.Printf("REPLAY-CASES fn=%s n=%d\n", fnS, q)
}
