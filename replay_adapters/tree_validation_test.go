package tree

// Bounded stand-in (injected via `go test -overlay`) for the whole-tree part of C04: the verdict of root.Validate on
// configurations over the repository's test schema against a hand-written expectation, and its independence of how the
// same resulting configuration is split among intents (one intent; two intents with alternating leaves at different
// priorities; the whole configuration twice under two owners).

import (
	"context"
	"fmt"
	"strings"
	"testing"

	"github.com/openconfig/ygot/ygot"
	"github.com/sdcio/data-server/mocks/mockcacheclient"
	"github.com/sdcio/data-server/pkg/cache"
	"github.com/sdcio/data-server/pkg/config"
	"github.com/sdcio/data-server/pkg/utils"
	"github.com/sdcio/data-server/pkg/utils/testhelper"
	sdcio_schema "github.com/sdcio/data-server/tests/sdcioygot"
	sdcpb "github.com/sdcio/sdc-protos/sdcpb"
	"go.uber.org/mock/gomock"
	"google.golang.org/protobuf/proto"
)

func vrvIf(name string, subs ...uint32) *sdcio_schema.SdcioModel_Interface {
	i := &sdcio_schema.SdcioModel_Interface{Name: ygot.String(name), Subinterface: map[uint32]*sdcio_schema.SdcioModel_Interface_Subinterface{}}
	for _, s := range subs {
		i.Subinterface[s] = &sdcio_schema.SdcioModel_Interface_Subinterface{Index: ygot.Uint32(s), Type: sdcio_schema.SdcioModelCommon_SiType_routed}
	}
	return i
}

func vrvIfDescr(name, descr string) *sdcio_schema.SdcioModel_Interface {
	return &sdcio_schema.SdcioModel_Interface{Name: ygot.String(name), Description: ygot.String(descr)}
}

func vrvBgp(as uint32) map[string]*sdcio_schema.SdcioModel_NetworkInstance {
	return map[string]*sdcio_schema.SdcioModel_NetworkInstance{"default": {Name: ygot.String("default"),
		Protocol: &sdcio_schema.SdcioModel_NetworkInstance_Protocol{Bgp: &sdcio_schema.SdcioModel_NetworkInstance_Protocol_Bgp{
			AdminState: sdcio_schema.SdcioModelNi_AdminState_disable, AutonomousSystem: ygot.Uint32(as), RouterId: ygot.String("1.1.1.1")}}}}
}

func vrvRef(name, ifname string, sub uint32) *sdcio_schema.SdcioModel_NetworkInstance_Interface {
	return &sdcio_schema.SdcioModel_NetworkInstance_Interface{Name: ygot.String(name),
		InterfaceRef: &sdcio_schema.SdcioModel_NetworkInstance_Interface_InterfaceRef{Interface: ygot.String(ifname), Subinterface: ygot.Uint32(sub)}}
}

func vrvNi(refs ...*sdcio_schema.SdcioModel_NetworkInstance_Interface) map[string]*sdcio_schema.SdcioModel_NetworkInstance {
	ni := &sdcio_schema.SdcioModel_NetworkInstance{Name: ygot.String("default"), Interface: map[string]*sdcio_schema.SdcioModel_NetworkInstance_Interface{}}
	for _, r := range refs {
		ni.Interface[*r.Name] = r
	}
	return map[string]*sdcio_schema.SdcioModel_NetworkInstance{"default": ni}
}

func vrvDk(mandato bool) map[sdcio_schema.SdcioModel_Doublekey_Key]*sdcio_schema.SdcioModel_Doublekey {
	e := &sdcio_schema.SdcioModel_Doublekey{Key1: ygot.String("k1"), Key2: ygot.String("k2"), Cont: &sdcio_schema.SdcioModel_Doublekey_Cont{Value1: ygot.String("v")}}
	if mandato {
		e.Mandato = ygot.String("m")
	}
	return map[sdcio_schema.SdcioModel_Doublekey_Key]*sdcio_schema.SdcioModel_Doublekey{{Key1: "k1", Key2: "k2"}: e}
}

func TestVerifReplayValidation(t *testing.T) {
	fn := "(*tree.RootEntry).Validate"
	two := map[string]*sdcio_schema.SdcioModel_Interface{"ethernet-1/1": vrvIf("ethernet-1/1", 1), "ethernet-1/2": vrvIf("ethernet-1/2", 2)}
	scenarios := []struct {
		name  string
		dev   *sdcio_schema.Device
		valid bool
	}{
		{"two keyed leafrefs, each to a subinterface of its own interface", &sdcio_schema.Device{Interface: two, NetworkInstance: vrvNi(vrvRef("a", "ethernet-1/1", 1), vrvRef("b", "ethernet-1/2", 2))}, true},
		{"one keyed leafref", &sdcio_schema.Device{Interface: two, NetworkInstance: vrvNi(vrvRef("a", "ethernet-1/2", 2))}, true},
		{"keyed leafref to a subinterface that exists only under the other interface", &sdcio_schema.Device{Interface: two, NetworkInstance: vrvNi(vrvRef("a", "ethernet-1/1", 1), vrvRef("b", "ethernet-1/2", 1))}, false},
		{"both keyed leafrefs crossed", &sdcio_schema.Device{Interface: two, NetworkInstance: vrvNi(vrvRef("a", "ethernet-1/1", 2), vrvRef("b", "ethernet-1/2", 1))}, false},
		{"leafref to an interface that does not exist", &sdcio_schema.Device{Interface: two, NetworkInstance: vrvNi(vrvRef("a", "ethernet-1/9", 1))}, false},
		{"list entry with its mandatory leaf", &sdcio_schema.Device{Doublekey: vrvDk(true)}, true},
		{"list entry without its mandatory leaf", &sdcio_schema.Device{Doublekey: vrvDk(false)}, false},
		{"string within its length and pattern", &sdcio_schema.Device{Patterntest: ygot.String("hallo 12")}, true},
		{"string shorter than its length range", &sdcio_schema.Device{Patterntest: ygot.String("hallo")}, false},
		{"string outside its pattern", &sdcio_schema.Device{Patterntest: ygot.String("servus 12")}, false},
		// a range given by a typedef (as-number: uint32 1..4294967295) is a range
		{"range of a typedef: autonomous-system 65000", &sdcio_schema.Device{NetworkInstance: vrvBgp(65000)}, true},
		{"range of a typedef: autonomous-system 0", &sdcio_schema.Device{NetworkInstance: vrvBgp(0)}, false},
		// the length statement counts characters, not the bytes of the encoding (RFC 7950, 9.4.4)
		{"string length: 9 characters in 12 bytes, allowed are 7..10", &sdcio_schema.Device{Patterntest: ygot.String("hallo äöü")}, true},
		{"string length: 200 characters in 400 bytes, allowed are 1..255", &sdcio_schema.Device{Interface: map[string]*sdcio_schema.SdcioModel_Interface{"ethernet-1/1": vrvIfDescr("ethernet-1/1", strings.Repeat("ä", 200))}}, true},
		{"string length: 256 characters, allowed are 1..255", &sdcio_schema.Device{Interface: map[string]*sdcio_schema.SdcioModel_Interface{"ethernet-1/1": vrvIfDescr("ethernet-1/1", strings.Repeat("ä", 256))}}, false},
		{"string length: 255 characters, allowed are 1..255", &sdcio_schema.Device{Interface: map[string]*sdcio_schema.SdcioModel_Interface{"ethernet-1/1": vrvIfDescr("ethernet-1/1", strings.Repeat("x", 255))}}, true},
	}
	n := 0
	for _, sc := range scenarios {
		for _, split := range []string{"one intent", "alternating leaves in two intents", "whole configuration under two owners"} {
			n++
			ctx := context.Background()
			mockCtrl := gomock.NewController(t)
			scb, err := testhelper.GetSchemaClientBound(t, mockCtrl)
			if err != nil {
				t.Fatal(err)
			}
			cacheClient := mockcacheclient.NewMockClient(mockCtrl)
			testhelper.ConfigureCacheClientMock(t, cacheClient, nil, nil, nil, nil)
			root, err := NewTreeRoot(ctx, NewTreeContext(NewTreeCacheClient("dev1", cacheClient), scb, "owner1"))
			if err != nil {
				t.Fatal(err)
			}
			js, err := ygot.EmitJSON(sc.dev, &ygot.EmitJSONConfig{Format: ygot.RFC7951, SkipValidation: true})
			if err != nil {
				t.Fatal(err)
			}
			upds, err := utils.NewConverter(scb).ExpandUpdate(ctx, &sdcpb.Update{Path: &sdcpb.Path{Elem: []*sdcpb.PathElem{}}, Value: &sdcpb.TypedValue{Value: &sdcpb.TypedValue_JsonVal{JsonVal: []byte(js)}}}, true)
			if err != nil {
				t.Fatal(err)
			}
			flags := NewUpdateInsertFlags()
			flags.SetNewFlag()
			add := func(u *sdcpb.Update, owner string, prio int32) {
				b, _ := proto.Marshal(u.Value)
				if _, err := root.AddCacheUpdateRecursive(ctx, cache.NewUpdate(utils.ToStrings(u.GetPath(), false, false), b, prio, owner, 0), flags); err != nil {
					t.Fatal(err)
				}
			}
			for i, u := range upds {
				switch split {
				case "one intent":
					add(u, "owner1", 5)
				case "alternating leaves in two intents":
					if i%2 == 0 {
						add(u, "owner1", 5)
					} else {
						add(u, "owner2", 10)
					}
				default:
					add(u, "owner1", 5)
					add(u, "owner2", 10)
				}
			}
			root.FinishInsertionPhase(ctx)
			in := fmt.Sprintf("configuration=%s,split=%s", sc.name, split)
			var res []string
			func() {
				defer func() {
					if r := recover(); r != nil {
						fmt.Printf("REPLAY-FAIL fn=%s clause=panic input=%s panic=%v\n", fn, in, r)
					}
				}()
				res = root.Validate(ctx, &config.Validation{DisableConcurrency: true}).ErrorsStr()
			}()
			if (len(res) == 0) != sc.valid {
				for i := range res {
					if len(res[i]) > 160 {
						res[i] = res[i][:160] + "..."
					}
				}
				fns := []string{fn}
				if strings.HasPrefix(sc.name, "string length") {
					fns = append(fns, "(*tree.sharedEntryAttributes).validateLength")
				}
				if strings.HasPrefix(sc.name, "range of") {
					fns = append(fns, "(*tree.sharedEntryAttributes).validateRange")
				}
				for _, f := range fns {
					fmt.Printf("REPLAY-FAIL fn=%s clause=verdict_is_validity_of_the_result input=%s why=%d error(s) %v, the configuration is valid=%v\n", f, in, len(res), res, sc.valid)
				}
			}
		}
	}
	fmt.Printf("REPLAY-CASES fn=%s n=%d\n", fn, n)
}
