package tree

// Replay adapter (injected via `go test -overlay`): executable contracts of the arithmetic validators (C04):
// leaf-list min/max-elements over all combinations of bounds {unset(0), 1, 2, 3, unbounded(MaxUint64)} and lengths 0..4.

import (
	"fmt"
	"math"
	"testing"

	"github.com/sdcio/data-server/pkg/cache"
	"github.com/sdcio/data-server/pkg/types"
	sdcpb "github.com/sdcio/sdc-protos/sdcpb"
	"google.golang.org/protobuf/proto"
)

func vrLeafListBytes(n int) []byte {
	ll := &sdcpb.ScalarArray{}
	for i := 0; i < n; i++ {
		ll.Element = append(ll.Element, &sdcpb.TypedValue{Value: &sdcpb.TypedValue_StringVal{StringVal: fmt.Sprintf("e%d", i)}})
	}
	b, _ := proto.Marshal(&sdcpb.TypedValue{Value: &sdcpb.TypedValue_LeaflistVal{LeaflistVal: ll}})
	return b
}

func vrCollect(f func(ch chan *types.ValidationResultEntry)) (n int, panicked any) {
	ch := make(chan *types.ValidationResultEntry, 100)
	func() {
		defer func() { panicked = recover() }()
		f(ch)
	}()
	close(ch)
	for range ch {
		n++
	}
	return
}

func TestVerifReplayValidators(t *testing.T) {
	fn := "(*tree.sharedEntryAttributes).validateLeafListMinMaxAttributes"
	cases := 0
	bounds := []uint64{0, 1, 2, 3, math.MaxUint64}
	for _, min := range bounds[:4] {
		for _, max := range bounds {
			for n := 0; n <= 4; n++ {
				cases++
				s := &sharedEntryAttributes{
					pathElemName: "ll",
					schema:       &sdcpb.SchemaElem{Schema: &sdcpb.SchemaElem_Leaflist{Leaflist: &sdcpb.LeafListSchema{Name: "ll", MinElements: min, MaxElements: max}}},
					leafVariants: newLeafVariants(nil),
				}
				s.leafVariants.les = append(s.leafVariants.les, &LeafEntry{Update: cache.NewUpdate([]string{"ll"}, vrLeafListBytes(n), 10, "owner1", 0), IsNew: true})
				errs, pan := vrCollect(func(ch chan *types.ValidationResultEntry) { s.validateLeafListMinMaxAttributes(ch) })
				in := fmt.Sprintf("min-elements=%d,max-elements=%d,elements=%d", min, max, n)
				if pan != nil {
					fmt.Printf("REPLAY-FAIL fn=%s clause=panic input=%s panic=%v\n", fn, in, pan)
					continue
				}
				tooMany := max > 0 && uint64(n) > max
				tooFew := min > 0 && uint64(n) < min
				if tooMany && errs == 0 {
					fmt.Printf("REPLAY-FAIL fn=%s clause=max_enforced input=%s why=no error reported\n", fn, in)
				}
				if tooFew && errs == 0 {
					fmt.Printf("REPLAY-FAIL fn=%s clause=min_enforced input=%s why=no error reported\n", fn, in)
				}
				if !tooMany && !tooFew && errs != 0 {
					fmt.Printf("REPLAY-FAIL fn=%s clause=within_bounds_is_silent input=%s why=%d error(s) reported\n", fn, in, errs)
				}
			}
		}
	}
	fmt.Printf("REPLAY-CASES fn=%s n=%d\n", fn, cases)
	vrRangeCases()
	vrPatternCases()
}

// validatePattern: a YANG pattern has to match the whole value (RFC 7950 9.4.5)
func vrPatternCases() {
	fn := "(*tree.sharedEntryAttributes).validatePattern"
	n := 0
	for _, c := range []struct {
		pattern, value string
		inverted       bool
		valid          bool
		substringOnly  bool
	}{
		{"hallo [0-9a-fA-F]*", "hallo 12", false, true, false},
		{"hallo [0-9a-fA-F]*", "hallo", false, false, false},
		{"hallo [0-9a-fA-F]*", "xx hallo 12 zz", false, false, true},
		{"[0-9]+", "123", false, true, false},
		{"[0-9]+", "abc", false, false, false},
		{"[0-9]+", "abc123", false, false, true},
		{"a|b", "a", false, true, false},
		{"a|b", "xay", false, false, true},
		{"[0-9]+", "abc", true, true, false},
		{"[0-9]+", "123", true, false, false},
	} {
		n++
		lt := &sdcpb.SchemaLeafType{Type: "string", TypeName: "string", Patterns: []*sdcpb.SchemaPattern{{Pattern: c.pattern, Inverted: c.inverted}}}
		s := &sharedEntryAttributes{pathElemName: "x", leafVariants: newLeafVariants(nil),
			schema: &sdcpb.SchemaElem{Schema: &sdcpb.SchemaElem_Field{Field: &sdcpb.LeafSchema{Name: "x", Type: lt}}}}
		b, _ := proto.Marshal(&sdcpb.TypedValue{Value: &sdcpb.TypedValue_StringVal{StringVal: c.value}})
		s.leafVariants.les = append(s.leafVariants.les, &LeafEntry{Update: cache.NewUpdate([]string{"x"}, b, 10, "owner1", 0), IsNew: true})
		errs, pan := vrCollect(func(ch chan *types.ValidationResultEntry) { s.validatePattern(ch) })
		in := fmt.Sprintf("pattern=%q,inverted=%v,value=%q", c.pattern, c.inverted, c.value)
		if pan != nil {
			fmt.Printf("REPLAY-FAIL fn=%s clause=panic input=%s panic=%v\n", fn, in, pan)
			continue
		}
		if (errs == 0) != c.valid {
			clause := "whole_value_matches"
			if c.substringOnly {
				clause += ".known" // recorded finding: patterns are matched unanchored
			}
			fmt.Printf("REPLAY-FAIL fn=%s clause=%s input=%s why=%d error(s) reported, the value is valid=%v\n", fn, clause, in, errs, c.valid)
		}
	}
	fmt.Printf("REPLAY-CASES fn=%s n=%d\n", fn, n)
}

func vrIntListBytes(vals []int64, unsigned bool) []byte {
	ll := &sdcpb.ScalarArray{}
	for _, v := range vals {
		if unsigned {
			ll.Element = append(ll.Element, &sdcpb.TypedValue{Value: &sdcpb.TypedValue_UintVal{UintVal: uint64(v)}})
		} else {
			ll.Element = append(ll.Element, &sdcpb.TypedValue{Value: &sdcpb.TypedValue_IntVal{IntVal: v}})
		}
	}
	b, _ := proto.Marshal(&sdcpb.TypedValue{Value: &sdcpb.TypedValue_LeaflistVal{LeaflistVal: ll}})
	return b
}

func vrNum(v int64) *sdcpb.Number {
	if v < 0 {
		return &sdcpb.Number{Value: uint64(-v), Negative: true}
	}
	return &sdcpb.Number{Value: uint64(v)}
}

// validateRange: leaves and leaf-lists of signed / unsigned types, ranges around and away from zero
func vrRangeCases() {
	fn := "(*tree.sharedEntryAttributes).validateRange"
	n := 0
	type rng struct{ lo, hi int64 }
	for _, unsigned := range []bool{false, true} {
		for _, rs := range [][]rng{{{1, 10}}, {{-10, 10}}, {{1, 3}, {7, 9}}} {
			if unsigned && rs[0].lo < 0 {
				continue
			}
			for _, asList := range []bool{false, true} {
				for _, vals := range [][]int64{{5}, {0}, {11}, {2, 8}, {2, 5}, {0, 2}, {20, 30}} {
					if !asList && len(vals) != 1 {
						continue
					}
					n++
					typeName := "int32"
					if unsigned {
						typeName = "uint32"
					}
					lt := &sdcpb.SchemaLeafType{Type: typeName, TypeName: typeName}
					for _, r := range rs {
						lt.Range = append(lt.Range, &sdcpb.SchemaMinMaxType{Min: vrNum(r.lo), Max: vrNum(r.hi)})
					}
					s := &sharedEntryAttributes{pathElemName: "x", leafVariants: newLeafVariants(nil)}
					var b []byte
					if asList {
						s.schema = &sdcpb.SchemaElem{Schema: &sdcpb.SchemaElem_Leaflist{Leaflist: &sdcpb.LeafListSchema{Name: "x", Type: lt}}}
						b = vrIntListBytes(vals, unsigned)
					} else {
						s.schema = &sdcpb.SchemaElem{Schema: &sdcpb.SchemaElem_Field{Field: &sdcpb.LeafSchema{Name: "x", Type: lt}}}
						var tv *sdcpb.TypedValue
						if unsigned {
							tv = &sdcpb.TypedValue{Value: &sdcpb.TypedValue_UintVal{UintVal: uint64(vals[0])}}
						} else {
							tv = &sdcpb.TypedValue{Value: &sdcpb.TypedValue_IntVal{IntVal: vals[0]}}
						}
						b, _ = proto.Marshal(tv)
					}
					s.leafVariants.les = append(s.leafVariants.les, &LeafEntry{Update: cache.NewUpdate([]string{"x"}, b, 10, "owner1", 0), IsNew: true})
					errs, pan := vrCollect(func(ch chan *types.ValidationResultEntry) { s.validateRange(ch) })
					bad := 0
					for _, v := range vals {
						in := false
						for _, r := range rs {
							if r.lo <= v && v <= r.hi {
								in = true
							}
						}
						if !in {
							bad++
						}
					}
					in := fmt.Sprintf("type=%s,leaflist=%v,ranges=%v,values=%v", typeName, asList, rs, vals)
					if pan != nil {
						fmt.Printf("REPLAY-FAIL fn=%s clause=panic input=%s panic=%v\n", fn, in, pan)
						continue
					}
					clause := "signed_checks_current_element"
					if unsigned {
						clause = "unsigned_checks_current_element"
					}
					if errs != bad {
						fmt.Printf("REPLAY-FAIL fn=%s clause=%s input=%s why=%d error(s) reported, %d element(s) out of range\n", fn, clause, in, errs, bad)
					}
				}
			}
		}
	}
	fmt.Printf("REPLAY-CASES fn=%s n=%d\n", fn, n)
}
