package tree

// Replay adapter (injected via `go test -overlay`): executable contracts of the arithmetic validators (C04):
// leaf-list min/max-elements over all combinations of bounds {unset(0), 1, 2, 3, unbounded(MaxUint64)} and lengths 0..4.

import (
	"fmt"
	"math"
	"testing"

	"github.com/sdcio/data-server/pkg/cache"
	"github.com/sdcio/data-server/pkg/types"
	sdcpb "github.com/sdcio/sdc-protos/sdcpb"
	"google.golang.org/protobuf/proto"
)

func vrLeafListBytes(n int) []byte {
	ll := &sdcpb.ScalarArray{}
	for i := 0; i < n; i++ {
		ll.Element = append(ll.Element, &sdcpb.TypedValue{Value: &sdcpb.TypedValue_StringVal{StringVal: fmt.Sprintf("e%d", i)}})
	}
	b, _ := proto.Marshal(&sdcpb.TypedValue{Value: &sdcpb.TypedValue_LeaflistVal{LeaflistVal: ll}})
	return b
}

func vrCollect(f func(ch chan *types.ValidationResultEntry)) (n int, panicked any) {
	ch := make(chan *types.ValidationResultEntry, 100)
	func() {
		defer func() { panicked = recover() }()
		f(ch)
	}()
	close(ch)
	for range ch {
		n++
	}
	return
}

func TestVerifReplayValidators(t *testing.T) {
	fn := "(*tree.sharedEntryAttributes).validateLeafListMinMaxAttributes"
	cases := 0
	bounds := []uint64{0, 1, 2, 3, math.MaxUint64}
	for _, min := range bounds[:4] {
		for _, max := range bounds {
			for n := 0; n <= 4; n++ {
				cases++
				s := &sharedEntryAttributes{
					pathElemName: "ll",
					schema:       &sdcpb.SchemaElem{Schema: &sdcpb.SchemaElem_Leaflist{Leaflist: &sdcpb.LeafListSchema{Name: "ll", MinElements: min, MaxElements: max}}},
					leafVariants: newLeafVariants(nil),
				}
				s.leafVariants.les = append(s.leafVariants.les, &LeafEntry{Update: cache.NewUpdate([]string{"ll"}, vrLeafListBytes(n), 10, "owner1", 0), IsNew: true})
				errs, pan := vrCollect(func(ch chan *types.ValidationResultEntry) { s.validateLeafListMinMaxAttributes(ch) })
				in := fmt.Sprintf("min-elements=%d,max-elements=%d,elements=%d", min, max, n)
				if pan != nil {
					fmt.Printf("REPLAY-FAIL fn=%s clause=panic input=%s panic=%v\n", fn, in, pan)
					continue
				}
				tooMany := max > 0 && uint64(n) > max
				tooFew := min > 0 && uint64(n) < min
				if tooMany && errs == 0 {
					fmt.Printf("REPLAY-FAIL fn=%s clause=max_enforced input=%s why=no error reported\n", fn, in)
				}
				if tooFew && errs == 0 {
					fmt.Printf("REPLAY-FAIL fn=%s clause=min_enforced input=%s why=no error reported\n", fn, in)
				}
				if !tooMany && !tooFew && errs != 0 {
					fmt.Printf("REPLAY-FAIL fn=%s clause=within_bounds_is_silent input=%s why=%d error(s) reported\n", fn, in, errs)
				}
			}
		}
	}
	fmt.Printf("REPLAY-CASES fn=%s n=%d\n", fn, cases)
}
