package netconf

// Replay adapter / bounded stand-in (injected via `go test -overlay`) for C20 on the device-message path: well-formed
// NETCONF replies (XML documents over the repository's test schema, real schema client) are transformed into
// notifications or refused with an error, never with a panic.

import (
	"context"
	"fmt"
	sdcpb "github.com/sdcio/sdc-protos/sdcpb"
	"strings"
	"testing"

	"github.com/beevik/etree"
	schemaClient "github.com/sdcio/data-server/pkg/datastore/clients/schema"
	"github.com/sdcio/data-server/pkg/utils/testhelper"
)

func TestVerifReplayTransform(t *testing.T) {
	fn := "(*datastore/target/netconf.XML2sdcpbConfigAdapter).Transform"
	scl, schema, err := testhelper.InitSDCIOSchema()
	if err != nil {
		t.Fatal(err)
	}
	scb := schemaClient.NewSchemaClientBound(schema.GetSchema(), scl)
	docs := map[string]string{
		"interface with its key":     `<data><interface><name>eth0</name><description>d</description></interface></data>`,
		"list entry without its key": `<data><interface><description>d</description></interface></data>`,
		"two-key entry with one key": `<data><doublekey><key1>a</key1><mandato>m</mandato></doublekey></data>`,
		"top-level leaf-list":        `<data><rangetestLeaflist>5</rangetestLeaflist><rangetestLeaflist>6</rangetestLeaflist></data>`,
		"leaf-list in a container":   `<data><leaflist><entry>a</entry><entry>b</entry></leaflist></data>`,
		"unknown element":            `<data><nosuchthing>1</nosuchthing></data>`,
		"unknown child":              `<data><interface><name>eth0</name><nosuchleaf>1</nosuchleaf></interface></data>`,
		"empty data":                 `<data></data>`,
		"empty document":             ``,
		"leaf with a child element":  `<data><patterntest><x>1</x></patterntest></data>`,
		"container given as text":    `<data><interface>text</interface></data>`,
		"nested list without keys":   `<data><interface><name>e</name><subinterface><description>d</description></subinterface></interface></data>`,
		"value of the wrong type":    `<data><interface><name>e</name><mtu>notanumber</mtu></interface></data>`,
		"choice case":                `<data><choices><case1><case-elem><elem>x</elem></case-elem></case1></choices></data>`,
		"identityref":                `<data><identityref><cryptoA>otherAlgo</cryptoA></identityref></data>`,
		"empty leaf":                 `<data><interface><name>e</name><description></description></interface></data>`,
		"network-instance with type": `<data><network-instance><name>default</name><type>default</type></network-instance></data>`,
	}
	n := 0
	for name, xml := range docs {
		n++
		doc := etree.NewDocument()
		if err := doc.ReadFromString(xml); err != nil {
			t.Fatalf("%s: %v", name, err)
		}
		func() {
			defer func() {
				if r := recover(); r != nil {
					fmt.Printf("REPLAY-FAIL fn=%s clause=panic input=reply=%q (%s) panic=%v\n", fn, xml, name, r)
				}
			}()
			NewXML2sdcpbConfigAdapter(scb).Transform(context.Background(), doc)
		}()
	}
	fmt.Printf("REPLAY-CASES fn=%s n=%d\n", fn, n)
}

// TestVerifReplayPathFilter (C11): the XML a path is turned into (the subtree filter of a NETCONF get, built by
// XMLConfigBuilder.AddElements) names the list entries of the path by all their keys; two paths into different entries
// of a list give two entry elements, two paths into one entry share it.
func TestVerifReplayPathFilter(t *testing.T) {
	fns := []string{"(*datastore/target/netconf.XMLConfigBuilder).fastForward", "datastore/target/netconf.pathElem2EtreePath"}
	scl, schema, err := testhelper.InitSDCIOSchema()
	if err != nil {
		t.Fatal(err)
	}
	scb := schemaClient.NewSchemaClientBound(schema.GetSchema(), scl)
	elem := func(name string, kv ...string) *sdcpb.PathElem {
		pe := &sdcpb.PathElem{Name: name}
		for i := 0; i+1 < len(kv); i += 2 {
			if pe.Key == nil {
				pe.Key = map[string]string{}
			}
			pe.Key[kv[i]] = kv[i+1]
		}
		return pe
	}
	cases := []struct {
		name    string
		paths   []*sdcpb.Path
		element string // the list element counted in the result
		entries int
	}{
		{"one-key list, two leaves of one entry", []*sdcpb.Path{{Elem: []*sdcpb.PathElem{elem("interface", "name", "e1"), elem("description")}}, {Elem: []*sdcpb.PathElem{elem("interface", "name", "e1"), elem("mtu")}}}, "interface", 1},
		{"one-key list, two entries", []*sdcpb.Path{{Elem: []*sdcpb.PathElem{elem("interface", "name", "e1"), elem("description")}}, {Elem: []*sdcpb.PathElem{elem("interface", "name", "e2"), elem("description")}}}, "interface", 2},
		{"two-key list, one leaf of one entry", []*sdcpb.Path{{Elem: []*sdcpb.PathElem{elem("doublekey", "key1", "a", "key2", "b"), elem("mandato")}}}, "doublekey", 1},
		{"two-key list, two leaves of one entry", []*sdcpb.Path{{Elem: []*sdcpb.PathElem{elem("doublekey", "key1", "a", "key2", "b"), elem("mandato")}}, {Elem: []*sdcpb.PathElem{elem("doublekey", "key1", "a", "key2", "b"), elem("cont")}}}, "doublekey", 1},
		{"two-key list, entries that differ in the second key", []*sdcpb.Path{{Elem: []*sdcpb.PathElem{elem("doublekey", "key1", "a", "key2", "b"), elem("mandato")}}, {Elem: []*sdcpb.PathElem{elem("doublekey", "key1", "a", "key2", "c"), elem("mandato")}}}, "doublekey", 2},
	}
	n := 0
	for _, c := range cases {
		n++
		in := "paths of the filter: " + c.name
		func() {
			defer func() {
				if r := recover(); r != nil {
					for _, fn := range fns {
						fmt.Printf("REPLAY-FAIL fn=%s clause=panic input=%s panic=%v\n", fn, in, r)
					}
				}
			}()
			b := NewXMLConfigBuilder(scb, &XMLConfigBuilderOpts{})
			for _, p := range c.paths {
				if err := b.AddElements(context.Background(), p); err != nil {
					for _, fn := range fns {
						fmt.Printf("REPLAY-FAIL fn=%s clause=every_key_names_the_entry input=%s why=path %v is refused: %v\n", fn, in, p, err)
					}
					return
				}
			}
			got := len(b.doc.FindElements("//" + c.element))
			if got != c.entries {
				xml, _ := b.GetDoc()
				for _, fn := range fns {
					fmt.Printf("REPLAY-FAIL fn=%s clause=every_key_names_the_entry input=%s why=%d %s element(s), expected %d: %s\n", fn, in, got, c.element, c.entries, strings.Join(strings.Fields(xml), " "))
				}
			}
		}()
	}
	for _, fn := range fns {
		fmt.Printf("REPLAY-CASES fn=%s n=%d\n", fn, n)
	}
}
