package config

// Replay adapter (injected by /verif/bin/gvc via `go test -overlay`; never written into /repo).
// Bounded stand-in for C20: a datastore configuration that ValidateSetDefaults accepts never leads one of the periodic
// syncs to a ticker with a non-positive interval (time.NewTicker panics, in a goroutine of the target). Which syncs run
// on a ticker is read off pkg/datastore/target: every NETCONF sync (nc.go Sync), gNMI modes get and once (gnmi.go
// getSync / periodicSync).

import (
	"fmt"
	"testing"
	"time"
)

func TestVerifReplaySyncConfig(t *testing.T) {
	fn := "(*config.DatastoreConfig).ValidateSetDefaults"
	n := 0
	var wrapped uint64 = 1 << 63 // what CreateDataStore makes of an interval above the int64 range
	for _, sbi := range []string{"netconf", "gnmi"} {
		for _, mode := range []string{"", "on-change", "sample", "once", "get"} {
			for _, iv := range []time.Duration{0, time.Duration(wrapped), -1, time.Second} {
				n++
				ds := &DatastoreConfig{Name: "dev1", Schema: &SchemaConfig{Name: "s", Vendor: "v", Version: "1"},
					SBI:  &SBI{Type: sbi, Address: "127.0.0.1", Port: 57400, NetconfOptions: &SBINetconfOptions{}, GnmiOptions: &SBIGnmiOptions{Encoding: "JSON_IETF"}},
					Sync: &Sync{Config: []*SyncProtocol{{Name: "sync1", Protocol: sbi, Paths: []string{"/"}, Mode: mode, Interval: iv}}}}
				in := fmt.Sprintf("sbi=%s,mode=%q,interval=%d", sbi, mode, int64(iv))
				var err error
				func() {
					defer func() {
						if r := recover(); r != nil {
							err = fmt.Errorf("panic: %v", r)
							fmt.Printf("REPLAY-FAIL fn=%s clause=panic input=%s panic=%v\n", fn, in, r)
						}
					}()
					err = ds.ValidateSetDefaults()
				}()
				ticker := sbi == "netconf" || mode == "get" || mode == "once"
				if err == nil && ticker && ds.Sync.Config[0].Interval <= 0 {
					fmt.Printf("REPLAY-FAIL fn=%s clause=panic input=%s why=the configuration is accepted; the periodic sync starts a ticker with the interval %d and panics in its goroutine\n", fn, in, int64(ds.Sync.Config[0].Interval))
				}
				if err != nil && iv > 0 {
					fmt.Printf("REPLAY-FAIL fn=%s clause=a_positive_interval_is_accepted input=%s why=%v\n", fn, in, err)
				}
			}
		}
	}
	// the sync buffer is the size of a channel (datastore.New): whatever the request says, an accepted configuration
	// holds a size a channel can be made with
	for _, buf := range []int64{-1, 0, 1, 1000, 1 << 40, 1<<63 - 1} {
		for _, withConfig := range []bool{false, true} {
			n++
			sy := &Sync{Buffer: buf}
			if withConfig {
				sy.Config = []*SyncProtocol{{Name: "sync1", Protocol: "gnmi", Paths: []string{"/"}, Mode: "on-change"}}
			}
			ds := &DatastoreConfig{Name: "dev1", Schema: &SchemaConfig{Name: "s", Vendor: "v", Version: "1"},
				SBI: &SBI{Type: "gnmi", Address: "127.0.0.1", Port: 57400, GnmiOptions: &SBIGnmiOptions{Encoding: "JSON_IETF"}}, Sync: sy}
			in := fmt.Sprintf("sync buffer=%d,sync entries=%v", buf, withConfig)
			err := ds.ValidateSetDefaults()
			if err == nil && (ds.Sync.Buffer < 0 || ds.Sync.Buffer > 1<<24) {
				fmt.Printf("REPLAY-FAIL fn=%s clause=panic input=%s why=the configuration is accepted with the buffer size %d: making the sync channel of that size panics\n", fn, in, ds.Sync.Buffer)
			}
		}
	}
	fmt.Printf("REPLAY-CASES fn=%s n=%d\n", fn, n)
}
