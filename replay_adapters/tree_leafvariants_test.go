package tree

// Replay adapter (injected by /verif/bin/gvc via `go test -overlay`; never written into /repo).
// Executable form of the LeafVariants contract clauses (C01 C02 C04 C09), evaluated on the real code over all
// variant sets with up to 3 entries (owners from {a,b,c,running,default}, distinct priorities, 5 flag states, 2 values).

import (
	"fmt"
	"testing"

	"github.com/sdcio/data-server/pkg/cache"
	"github.com/sdcio/data-server/pkg/utils"
	sdcpb "github.com/sdcio/sdc-protos/sdcpb"
	"google.golang.org/protobuf/proto"
)

type vrLE struct {
	owner string
	prio  int32
	flag  int // 0 none 1 new 2 updated 3 delete 4 delete+onlyIntended
	val   int
}

func (e vrLE) String() string {
	return fmt.Sprintf("{%s p%d %s v%d}", e.owner, e.prio, []string{"-", "New", "Upd", "Del", "DelOrphan"}[e.flag], e.val)
}

func vrBytes(v int) []byte {
	b, _ := proto.Marshal(&sdcpb.TypedValue{Value: &sdcpb.TypedValue_StringVal{StringVal: fmt.Sprintf("value-%d", v)}})
	return b
}

func vrBuild(es []vrLE) *LeafVariants {
	lv := newLeafVariants(nil)
	for _, e := range es {
		le := &LeafEntry{Update: cache.NewUpdate([]string{"a", "b"}, vrBytes(e.val), e.prio, e.owner, 0)}
		switch e.flag {
		case 1:
			le.IsNew = true
		case 2:
			le.IsUpdated = true
		case 3:
			le.Delete = true
		case 4:
			le.Delete, le.DeleteOnlyIntended = true, true
		}
		lv.les = append(lv.les, le)
	}
	return lv
}

func vrIntentOwned(le *LeafEntry) bool {
	return le.Owner() != RunningIntentName && le.Owner() != DefaultsIntentName
}

func vrRules(lv *LeafVariants, e *LeafEntry) bool {
	if e.Delete {
		return false
	}
	for _, o := range lv.les {
		if !o.Delete && o.Priority() < e.Priority() {
			return false
		}
	}
	return true
}

func vrAllRemoved(lv *LeafVariants) bool {
	found := false
	for _, o := range lv.les {
		if vrIntentOwned(o) {
			found = true
			if !o.Delete || o.DeleteOnlyIntended {
				return false
			}
		}
	}
	return found
}

type vrReporter struct {
	seen  map[string]int
	cases map[string]int
}

func (r *vrReporter) fail(fn, clause, input, why string) {
	k := fn + "#" + clause
	r.seen[k]++
	if r.seen[k] <= 3 {
		fmt.Printf("REPLAY-FAIL fn=%s clause=%s input=%s why=%s\n", fn, clause, input, why)
	}
}

func vrEnumerate(f func(es []vrLE)) {
	owners := []string{"a", "b", "c", RunningIntentName, DefaultsIntentName}
	prios := []int32{5, 6, 7}
	var rec func(es []vrLE, usedO, usedP int)
	rec = func(es []vrLE, usedO, usedP int) {
		f(es)
		if len(es) == 3 {
			return
		}
		for oi, o := range owners {
			if usedO&(1<<oi) != 0 {
				continue
			}
			for pi, p := range prios {
				if usedP&(1<<pi) != 0 {
					continue
				}
				for flag := 0; flag < 5; flag++ {
					if (o == RunningIntentName || o == DefaultsIntentName) && flag != 0 {
						continue
					}
					for val := 0; val < 2; val++ {
						rec(append(append([]vrLE{}, es...), vrLE{o, p, flag, val}), usedO|1<<oi, usedP|1<<pi)
					}
				}
			}
		}
	}
	rec(nil, 0, 0)
}

func vrValEq(a, b *LeafEntry) bool {
	av, _ := a.Value()
	bv, _ := b.Value()
	return utils.EqualTypedValues(av, bv)
}

func TestVerifReplayLeafVariants(t *testing.T) {
	rep := &vrReporter{seen: map[string]int{}, cases: map[string]int{}}
	fnGHP := "(*tree.LeafVariants).GetHighestPrecedence"
	vrEnumerate(func(es []vrLE) {
		in := fmt.Sprint(es)
		lv := vrBuild(es)
		// simple predicates
		{
			fn := "(*tree.LeafVariants).shouldDelete"
			rep.cases[fn]++
			if lv.shouldDelete() != vrAllRemoved(lv) {
				rep.fail(fn, "spec", in, fmt.Sprint(lv.shouldDelete()))
			}
			fn = "(*tree.LeafVariants).remainsToExist"
			rep.cases[fn]++
			// what the device runs does not outlive the intents that put it there: when intents hold the leaf and every one
			// of their values is being removed from the device, only the schema default is left
			intentOwned, intentStays, runningStays, defaultStays := false, false, false, false
			for _, o := range lv.les {
				switch {
				case o.Owner() == RunningIntentName:
					runningStays = runningStays || !o.Delete
				case o.Owner() == DefaultsIntentName:
					defaultStays = defaultStays || !o.Delete
				default:
					intentOwned = true
					if !o.Delete || o.DeleteOnlyIntended {
						intentStays = true
					}
				}
			}
			ex := intentStays || runningStays || defaultStays
			if intentOwned && !intentStays {
				ex = defaultStays
			}
			if lv.remainsToExist() != ex {
				rep.fail(fn, "spec", in, fmt.Sprint(lv.remainsToExist()))
			}
			fn = "(*tree.LeafVariants).canDelete"
			rep.cases[fn]++
			want := true
			if len(lv.les) > 0 {
				// a value only the device holds (besides the schema default) is left alone
				hasRunning, onlyRunningOrDefault := false, true
				for _, o := range lv.les {
					if o.Owner() == RunningIntentName {
						hasRunning = true
					}
					if vrIntentOwned(o) {
						onlyRunningOrDefault = false
					}
				}
				if hasRunning && onlyRunningOrDefault {
					want = false
				}
				for _, o := range lv.les {
					if vrIntentOwned(o) && (!o.Delete || o.DeleteOnlyIntended) {
						want = false
					}
				}
			}
			if lv.canDelete() != want {
				rep.fail(fn, "spec", in, fmt.Sprint(lv.canDelete()))
			}
			fn = "(*tree.LeafVariants).GetHighestPrecedenceValue"
			rep.cases[fn]++
			got := lv.GetHighestPrecedenceValue()
			att := got == 2147483647
			for _, o := range lv.les {
				if !o.Delete && o.Owner() != DefaultsIntentName {
					if got > o.Priority() {
						rep.fail(fn, "lower_bound", in, fmt.Sprint(got))
					}
					if o.Priority() == got {
						att = true
					}
				}
			}
			if !att {
				rep.fail(fn, "attained", in, fmt.Sprint(got))
			}
			fn = "(*tree.LeafVariants).GetByOwner"
			for _, ow := range []string{"a", RunningIntentName, "zz"} {
				rep.cases[fn]++
				r := lv.GetByOwner(ow)
				var wantE *LeafEntry
				for _, o := range lv.les {
					if o.Owner() == ow {
						wantE = o
						break
					}
				}
				if r != wantE {
					rep.fail(fn, "found", in+" owner="+ow, "wrong entry")
				}
			}
		}
		for _, only := range []bool{true, false} {
			for _, incDef := range []bool{true, false} {
				rep.cases[fnGHP]++
				inp := fmt.Sprintf("%s onlyNewOrUpdated=%v includeDefaults=%v", in, only, incDef)
				var res *LeafEntry
				panicked := false
				func() {
					defer func() {
						if r := recover(); r != nil {
							panicked = true
							rep.fail(fnGHP, "panic", inp, fmt.Sprint(r))
						}
					}()
					res = lv.GetHighestPrecedence(only, incDef)
				}()
				if panicked {
					continue
				}
				if res != nil {
					mem := false
					for _, o := range lv.les {
						if o == res {
							mem = true
						}
					}
					if !mem {
						rep.fail(fnGHP, "member", inp, "result not an element")
					}
					if only && !vrRules(lv, res) {
						rep.fail(fnGHP, "only_ruler_send", inp, "returned "+res.Owner())
					}
					if !only && !vrRules(lv, res) {
						// known finding (known_findings.json): excused when a Delete-flagged variant exists
						anyDel := false
						for _, o := range lv.les {
							if o.Delete {
								anyDel = true
							}
						}
						if anyDel {
							rep.fail(fnGHP, "only_ruler_view.known", inp, "returned "+res.Owner())
						} else {
							rep.fail(fnGHP, "only_ruler_view", inp, "returned "+res.Owner())
						}
					}
					if only && res.Owner() == RunningIntentName {
						rep.fail(fnGHP, "never_running_send", inp, "returned running")
					}
				}
				if only && vrAllRemoved(lv) && res != nil {
					rep.fail(fnGHP, "nothing_when_all_removed", inp, "returned "+res.Owner())
				}
				if only {
					for _, r := range lv.les {
						delAbove := false
						for _, j := range lv.les {
							if j.Delete && j.Priority() < r.Priority() {
								delAbove = true
							}
						}
						if vrRules(lv, r) && vrIntentOwned(r) && (r.IsNew || r.IsUpdated || delAbove) && res != r {
							// known finding (known_findings.json): excused when two Delete-flagged variants rank above a live one
							nDelAbove := 0
							for _, j := range lv.les {
								if j.Delete && j.Priority() < r.Priority() {
									nDelAbove++
								}
							}
							clause := "must_send"
							if nDelAbove >= 2 {
								clause = "must_send.known"
							}
							rep.fail(fnGHP, clause, inp, fmt.Sprintf("ruler %s not returned (result nil=%v)", r.Owner(), res == nil))
						}
					}
					quiet := true
					for _, o := range lv.les {
						if o.IsNew || o.IsUpdated || o.Delete {
							quiet = false
						}
					}
					if quiet {
						okRun := false
						for _, k := range lv.les {
							if k.Owner() == RunningIntentName {
								all := true
								for _, r := range lv.les {
									if vrRules(lv, r) && !vrValEq(k, r) {
										all = false
									}
								}
								if all {
									okRun = true
								}
							}
						}
						if okRun && res != nil {
							rep.fail(fnGHP, "quiet", inp, "returned "+res.Owner())
						}
					}
				}
			}
		}
		// Add
		fnAdd := "(*tree.LeafVariants).Add"
		for _, ne := range []vrLE{{"a", 5, 1, 0}, {"a", 5, 1, 1}, {"a", 9, 1, 0}, {"d", 8, 1, 0}} {
			rep.cases[fnAdd]++
			lv2 := vrBuild(es)
			type snap struct {
				le                        *LeafEntry
				upd                       *cache.Update
				isNew, isUpd, del, orphan bool
			}
			var before []snap
			for _, o := range lv2.les {
				before = append(before, snap{o, o.Update, o.IsNew, o.IsUpdated, o.Delete, o.DeleteOnlyIntended})
			}
			nle := &LeafEntry{Update: cache.NewUpdate([]string{"a", "b"}, vrBytes(ne.val), ne.prio, ne.owner, 0), IsNew: true}
			inp := fmt.Sprintf("%s add=%s", in, ne)
			lv2.Add(nle)
			matched := false
			for i, b := range before {
				o := lv2.les[i]
				if b.upd.Owner() == ne.owner {
					matched = true
					if b.upd.EqualSkipPath(nle.Update) {
						if o != b.le || o.Delete || o.DeleteOnlyIntended || o.Update != b.upd || o.IsNew != b.isNew || o.IsUpdated != b.isUpd {
							rep.fail(fnAdd, "identical_reinsert", inp, fmt.Sprintf("flags new=%v upd=%v del=%v", o.IsNew, o.IsUpdated, o.Delete))
						}
					} else if o != b.le || o.Update != nle.Update || !o.IsUpdated || o.Delete || o.IsNew {
						rep.fail(fnAdd, "changed_value_is_update", inp, fmt.Sprintf("flags new=%v upd=%v del=%v", o.IsNew, o.IsUpdated, o.Delete))
					}
				} else if o != b.le || o.Update != b.upd || o.IsNew != b.isNew || o.IsUpdated != b.isUpd || o.Delete != b.del || o.DeleteOnlyIntended != b.orphan {
					rep.fail(fnAdd, "other_owners_untouched", inp, "entry "+b.upd.Owner()+" changed")
				}
			}
			if matched && len(lv2.les) != len(before) {
				rep.fail(fnAdd, "same_owner_keeps_length", inp, fmt.Sprint(len(lv2.les)))
			}
			if !matched && (len(lv2.les) != len(before)+1 || lv2.les[len(before)] != nle) {
				rep.fail(fnAdd, "new_owner_appended", inp, fmt.Sprint(len(lv2.les)))
			}
		}
	})
	// intents that share a priority: which of them rules must not depend on when their entries were written (a re-applied
	// unchanged intent keeps its stored entry, new content carries no timestamp), and an unchanged intent that is
	// re-applied next to such a neighbour, with the device running its value, sends nothing
	{
		fnT := "(*tree.LeafVariants).GetHighestPrecedence"
		mk := func(owner string, prio int32, val int, ts int64) *LeafEntry {
			return &LeafEntry{Update: cache.NewUpdate([]string{"a", "b"}, vrBytes(val), prio, owner, ts)}
		}
		for _, tss := range [][2]int64{{1, 2}, {2, 1}, {0, 5}, {5, 0}, {3, 3}} {
			for _, onlyNew := range []bool{false, true} {
				rep.cases[fnT]++
				lv := newLeafVariants(nil)
				lv.Add(mk("a", 10, 1, tss[0]))
				lv.Add(mk("b", 10, 2, tss[1]))
				lv.Add(mk(RunningIntentName, RunningValuesPrio, 1, 0))
				got := lv.GetHighestPrecedence(onlyNew, false)
				inp := fmt.Sprintf("variants=[{a p10 - v1 ts%d} {b p10 - v2 ts%d} {running v1}],onlyNewOrUpdated=%v", tss[0], tss[1], onlyNew)
				switch {
				case onlyNew && got != nil:
					rep.fail(fnT, "quiet", inp, fmt.Sprintf("returned the entry of %s: an unchanged intent next to a neighbour of the same priority is sent again", got.Owner()))
				case !onlyNew && (got == nil || got.Owner() != "a"):
					rep.fail(fnT, "tie_does_not_depend_on_timestamps", inp, fmt.Sprintf("returned %v, with other timestamps the entry of a", got))
				}
			}
		}
	}
	// the value of an unchanged intent and the value the device runs are compared as values: two writings of one
	// value (a decimal with another number of fraction digits, a value that carries a timestamp) are not a change
	{
		fnU := "(*tree.LeafVariants).highestIsUnequalRunning"
		dec := func(digits int64, precision uint32) *sdcpb.TypedValue {
			return &sdcpb.TypedValue{Value: &sdcpb.TypedValue_DecimalVal{DecimalVal: &sdcpb.Decimal64{Digits: digits, Precision: precision}}}
		}
		str := func(s string, ts uint64) *sdcpb.TypedValue {
			return &sdcpb.TypedValue{Timestamp: ts, Value: &sdcpb.TypedValue_StringVal{StringVal: s}}
		}
		ll := func(xs ...string) *sdcpb.TypedValue {
			var el []*sdcpb.TypedValue
			for _, x := range xs {
				el = append(el, str(x, 0))
			}
			return &sdcpb.TypedValue{Value: &sdcpb.TypedValue_LeaflistVal{LeaflistVal: &sdcpb.ScalarArray{Element: el}}}
		}
		for _, c := range []struct {
			name            string
			intent, running *sdcpb.TypedValue
			unequal         bool
		}{
			{"decimal 1.5 against 1.50", dec(15, 1), dec(150, 2), false},
			{"decimal 1.5 against 1.6", dec(15, 1), dec(16, 1), true},
			{"string with a timestamp against the same string without", str("x", 1700000000), str("x", 0), false},
			{"string x against string y", str("x", 0), str("y", 0), true},
			{"string x against string x", str("x", 0), str("x", 0), false},
			{"leaf-list [a b a] against leaf-list [a b a]", ll("a", "b", "a"), ll("a", "b", "a"), false},
			{"leaf-list [a b] against leaf-list [a b]", ll("a", "b"), ll("a", "b"), false},
			{"leaf-list [a b a] against leaf-list [a b b]", ll("a", "b", "a"), ll("a", "b", "b"), true},
		} {
			rep.cases[fnU]++
			ib, _ := proto.Marshal(c.intent)
			rb, _ := proto.Marshal(c.running)
			lv := newLeafVariants(nil)
			hi := &LeafEntry{Update: cache.NewUpdate([]string{"a", "b"}, ib, 10, "a", 0)}
			lv.les = append(lv.les, hi, &LeafEntry{Update: cache.NewUpdate([]string{"a", "b"}, rb, RunningValuesPrio, RunningIntentName, 0)})
			inp := fmt.Sprintf("intent a p10 holds %s, running holds the other writing", c.name)
			if got := lv.highestIsUnequalRunning(hi); got != c.unequal {
				rep.fail(fnU, "compares_values", inp, fmt.Sprintf("unequal to running=%v, expected %v", got, c.unequal))
			}
			if got := lv.GetHighestPrecedence(true, false); (got != nil) != c.unequal {
				rep.fail("(*tree.LeafVariants).GetHighestPrecedence", "quiet", inp, fmt.Sprintf("onlyNewOrUpdated returns %v: an unchanged value is sent again only if it differs from what the device runs (%v)", got, c.unequal))
			}
		}
	}
	for fn, n := range rep.cases {
		fmt.Printf("REPLAY-CASES fn=%s n=%d\n", fn, n)
	}
	for k, n := range rep.seen {
		fmt.Printf("REPLAY-FAILCOUNT %s n=%d\n", k, n)
	}
}
