package tree

// Replay adapter (injected via `go test -overlay`): GetBranchesHighesPrecedence on intended-store indexes built by the real code from a mocked store (C08, C11).

import (
	"context"
	"fmt"
	"math"
	"strings"
	"testing"

	"github.com/sdcio/data-server/mocks/mockcacheclient"
	"github.com/sdcio/data-server/pkg/cache"
	"github.com/sdcio/data-server/pkg/utils/testhelper"
	"go.uber.org/mock/gomock"
)

func vrIsPathPrefix(p, k []string) bool {
	if len(p) > len(k) {
		return false
	}
	for i := range p {
		if p[i] != k[i] {
			return false
		}
	}
	return true
}

func TestVerifReplayBranches(t *testing.T) {
	fn := "(*tree.TreeCacheClientImpl).GetBranchesHighesPrecedence"
	type ent struct {
		path []string
		prio int32
	}
	// candidate index entries: the member container itself, entries below it, a sibling whose name extends the member's
	// name, a sibling whose name contains the separator, an unrelated entry
	pool := []ent{
		{[]string{"choices", "case1"}, 20},
		{[]string{"choices", "case1", "elem"}, 5},
		{[]string{"choices", "case1", "log"}, 30},
		{[]string{"choices", "case1x", "elem"}, 1},
		{[]string{"choices", "case1_b"}, 2},
		{[]string{"choices", "case2", "log"}, 3},
	}
	query := []string{"choices", "case1"}
	n := 0
	for mask := 0; mask < 1<<len(pool); mask++ {
		n++
		var stored []*cache.Update
		want := int32(math.MaxInt32)
		var desc []string
		collision := false
		for i, e := range pool {
			if mask&(1<<i) == 0 {
				continue
			}
			key := strings.Join(e.path, KeysIndexSep)
			stored = append(stored, cache.NewUpdate(e.path, []byte{1}, e.prio, fmt.Sprintf("owner%d", i), 0))
			desc = append(desc, fmt.Sprintf("%s@%d", strings.Join(e.path, "/"), e.prio))
			if vrIsPathPrefix(query, e.path) {
				if e.prio < want {
					want = e.prio
				}
			} else if strings.HasPrefix(key, strings.Join(query, KeysIndexSep)) {
				collision = true
			}
		}
		// the index is built by the real code from the keys of the (mocked) intended store
		mockCtrl := gomock.NewController(t)
		cacheClient := mockcacheclient.NewMockClient(mockCtrl)
		testhelper.ConfigureCacheClientMock(t, cacheClient, stored, []*cache.Update{}, []*cache.Update{}, [][]string{})
		c := NewTreeCacheClient("dev1", cacheClient)
		got := c.GetBranchesHighesPrecedence(context.Background(), query)
		if got != want {
			in := fmt.Sprintf("index=[%s],path=choices/case1", strings.Join(desc, " "))
			clause := "whole_branch_lower_bound"
			if got < want {
				clause = "members_only"
				if collision {
					// known finding: joined-string keys make a sibling whose name extends the member's name (or contains '_') look like a member
					clause = "members_only.known"
				}
			}
			fmt.Printf("REPLAY-FAIL fn=%s clause=%s input=%s why=result %d, best priority in the branch %d\n", fn, clause, in, got, want)
		}
	}
	fmt.Printf("REPLAY-CASES fn=%s n=%d\n", fn, n)
}
