package datastore

// Bounded stand-in (injected via `go test -overlay`) for the history part of C01, C02 and C09: sequences of real
// TransactionSet / TransactionConfirm calls against an in-memory model of the cache (intended store keyed by path,
// priority and owner exactly as cache.Modify is told; running store keyed by path) and a device model that applies
// the updates and deletes each transaction reports. After every step:
//   C01  the device holds, for every path, the value of the live intent with the lowest priority value that defines it
//        (for a choice: only the nodes of the case that holds the best contribution), and nothing else;
//   C02  the intended store holds exactly the entries of the last accepted version of every live intent;
//   C09  a transaction that re-applies an intent unchanged reports no update and no delete.

import (
	"context"
	"fmt"
	"slices"
	"sort"
	"strings"
	"sync"
	"testing"
	"time"

	"github.com/sdcio/cache/proto/cachepb"
	"github.com/sdcio/data-server/mocks/mockcacheclient"
	"github.com/sdcio/data-server/mocks/mocktarget"
	"github.com/sdcio/data-server/pkg/cache"
	"github.com/sdcio/data-server/pkg/config"
	schemaClient "github.com/sdcio/data-server/pkg/datastore/clients/schema"
	"github.com/sdcio/data-server/pkg/datastore/target"
	"github.com/sdcio/data-server/pkg/datastore/types"
	"github.com/sdcio/data-server/pkg/utils"
	"github.com/sdcio/data-server/pkg/utils/testhelper"
	sdcpb "github.com/sdcio/sdc-protos/sdcpb"
	"go.uber.org/mock/gomock"
)

type vrcCache struct {
	m        sync.Mutex
	intended map[string]*cache.Update
	running  map[string]*cache.Update
	ts       int64
}

func vrcIKey(path []string, prio int32, owner string) string {
	return fmt.Sprintf("%s\x00%d\x00%s", strings.Join(path, "\x01"), prio, owner)
}

func (c *vrcCache) modify(opts *cache.Opts, dels [][]string, upds []*cache.Update) {
	c.m.Lock()
	defer c.m.Unlock()
	switch opts.Store {
	case cachepb.Store_INTENDED:
		for _, d := range dels {
			delete(c.intended, vrcIKey(d, opts.Priority, opts.Owner))
		}
		for _, u := range upds {
			c.ts++
			c.intended[vrcIKey(u.GetPath(), opts.Priority, opts.Owner)] = cache.NewUpdate(u.GetPath(), u.Bytes(), opts.Priority, opts.Owner, c.ts)
		}
	case cachepb.Store_CONFIG:
		for _, d := range dels {
			for k, u := range c.running {
				if len(u.GetPath()) >= len(d) && slices.Equal(u.GetPath()[:len(d)], d) {
					delete(c.running, k)
				}
			}
		}
		for _, u := range upds {
			c.ts++
			c.running[strings.Join(u.GetPath(), "\x01")] = cache.NewUpdate(u.GetPath(), u.Bytes(), 0, "", c.ts)
		}
	}
}

func (c *vrcCache) read(opts *cache.Opts, paths [][]string) []*cache.Update {
	c.m.Lock()
	defer c.m.Unlock()
	result := []*cache.Update{}
	switch opts.Store {
	case cachepb.Store_INTENDED:
		// the read semantics of the cache (github.com/sdcio/cache v0.0.35, readFromIntendedStore): the key is the joined path
		// and, only for a priority > 0, that priority and the owner; with priority 0 the owner is NOT part of the key and the
		// entries of the best PriorityCount (at least one) priorities of each stored path come back, whoever owns them; with a
		// negative priority all entries come back. Keys match by prefix: a path also selects what is stored below it.
		for _, p := range paths {
			byPath := map[string][]*cache.Update{}
			for _, u := range c.intended {
				if len(u.GetPath()) < len(p) || !slices.Equal(u.GetPath()[:len(p)], p) {
					continue
				}
				if opts.Priority > 0 && (u.Priority() != opts.Priority || (opts.Owner != "" && u.Owner() != opts.Owner)) {
					continue
				}
				k := strings.Join(u.GetPath(), "\x01")
				byPath[k] = append(byPath[k], u)
			}
			for _, cands := range byPath {
				sort.Slice(cands, func(i, j int) bool { return cands[i].Priority() < cands[j].Priority() })
				if opts.Priority == 0 {
					count := opts.PriorityCount
					if count == 0 {
						count = 1
					}
					prios := map[int32]struct{}{}
					filtered := []*cache.Update{}
					for _, u := range cands {
						if _, known := prios[u.Priority()]; !known {
							if uint64(len(prios)) >= count {
								break
							}
							prios[u.Priority()] = struct{}{}
						}
						filtered = append(filtered, u)
					}
					cands = filtered
				}
				result = append(result, cands...)
			}
		}
	default:
		for _, p := range paths {
			for _, u := range c.running {
				if len(u.GetPath()) >= len(p) && slices.Equal(u.GetPath()[:len(p)], p) {
					result = append(result, u)
				}
			}
		}
	}
	sort.Slice(result, func(i, j int) bool { return result[i].TS() < result[j].TS() })
	return result
}

func (c *vrcCache) wire(cc *mockcacheclient.MockClient) {
	cc.EXPECT().GetKeys(gomock.Any(), gomock.Any(), gomock.Any()).AnyTimes().DoAndReturn(
		func(_ context.Context, _ string, store cachepb.Store) (chan *cache.Update, error) {
			c.m.Lock()
			src := c.intended
			if store == cachepb.Store_CONFIG {
				src = c.running
			}
			ks := make([]*cache.Update, 0, len(src))
			for _, u := range src {
				ks = append(ks, u)
			}
			c.m.Unlock()
			ch := make(chan *cache.Update, len(ks))
			for _, k := range ks {
				ch <- k
			}
			close(ch)
			return ch, nil
		})
	cc.EXPECT().Read(gomock.Any(), gomock.Any(), gomock.Any(), gomock.Any(), gomock.Any()).AnyTimes().DoAndReturn(
		func(_ context.Context, _ string, opts *cache.Opts, paths [][]string, _ time.Duration) []*cache.Update {
			return c.read(opts, paths)
		})
	cc.EXPECT().Modify(gomock.Any(), gomock.Any(), gomock.Any(), gomock.Any(), gomock.Any()).AnyTimes().DoAndReturn(
		func(_ context.Context, _ string, opts *cache.Opts, dels [][]string, upds []*cache.Update) error {
			c.modify(opts, dels, upds)
			return nil
		})
}

// one step of a history: set (json != "") or delete an intent
type vrcStep struct {
	name    string
	prio    int32
	json    string
	cancel  bool      // the transaction is cancelled instead of confirmed: everything is as before it
	with    []vrcStep // further intents of the same transaction
	invalid bool      // the configuration that would result violates the schema: the step has to be rejected, nothing changes
	orphan  bool      // with json == "": the intent is given up with the orphan flag (removed from the intended store only, the device keeps its values)
	device  bool      // not a transaction: the device holds this configuration on its own (it is in running, no intent defines it)
	carries string    // with json == "": updates the delete (or orphan) request carries nevertheless
}

type vrcLive struct {
	prio   int32
	leaves map[string]string // path (joined with /) -> value
}

func TestVerifReplayConverge(t *testing.T) {
	fnLL, fnG := "(*datastore.Datastore).lowlevelTransactionSet", "(*tree.sharedEntryAttributes).getRegularDeletes"
	const (
		ifA      = `{"interface":[{"name":"ethernet-1/1","description":"a"}]}`
		ifB      = `{"interface":[{"name":"ethernet-1/1","description":"b"}]}`
		ifTwo    = `{"interface":[{"name":"ethernet-1/1","description":"a"},{"name":"ethernet-1/2","description":"x"}]}`
		ifSub    = `{"interface":[{"name":"ethernet-1/1","description":"a","subinterface":[{"index":1,"description":"s"}]}]}`
		case1    = `{"choices":{"case1":{"case-elem":{"elem":"v"}}}}`
		case2    = `{"choices":{"case2":{"log":true}}}`
		case2E   = `{"choices":{"case2":{}}}`
		case1Log = `{"choices":{"case1":{"log":true}}}`
		llOne    = `{"leaflist":{"entry":["a","b"]}}`
		llTwo    = `{"leaflist":{"entry":["b","c"]}}`
		pattern  = `{"patterntest":"hallo 12"}`
		dkV1     = `{"doublekey":[{"key1":"k1","key2":"k2","mandato":"m","cont":{"value1":"x"}}]}`
		dkV2     = `{"doublekey":[{"key1":"k1","key2":"k2","mandato":"m","cont":{"value2":"y"}}]}`
		dkNone   = `{"doublekey":[{"key1":"k1","key2":"k2","mandato":"m"}]}`
		dkNoMand = `{"doublekey":[{"key1":"k1","key2":"k2","cont":{"value1":"x"}}]}`
		refFull  = `{"interface":[{"name":"ethernet-1/1","subinterface":[{"index":1,"type":"routed"}]}],"network-instance":[{"name":"default","interface":[{"name":"ethernet-1/1.1","interface-ref":{"interface":"ethernet-1/1","subinterface":1}}]}]}`
		refNoIf  = `{"interface":[{"name":"ethernet-1/1","subinterface":[{"index":1,"type":"routed"}]}],"network-instance":[{"name":"default","interface":[{"name":"ethernet-1/1.1","interface-ref":{"subinterface":1}}]}]}`
		refNoSub = `{"interface":[{"name":"ethernet-1/1"}],"network-instance":[{"name":"default","interface":[{"name":"ethernet-1/1.1","interface-ref":{"interface":"ethernet-1/1","subinterface":1}}]}]}`
		bgpFull  = `{"network-instance":[{"name":"default","protocol":{"bgp":{"admin-state":"disable","autonomous-system":65000,"router-id":"1.1.1.1"}}}]}`
		bgpNoRid = `{"network-instance":[{"name":"default","protocol":{"bgp":{"admin-state":"disable","autonomous-system":65000}}}]}`
	)
	histories := map[string][]vrcStep{
		"shadowed value becomes active when the ruling intent is deleted":                 {{name: "A", prio: 10, json: ifA}, {name: "B", prio: 5, json: ifB}, {name: "B", prio: 5, json: ""}},
		"lower-precedence intent changes nothing":                                         {{name: "B", prio: 5, json: ifB}, {name: "A", prio: 10, json: ifA}, {name: "A", prio: 10, json: ""}},
		"entry removed from an intent":                                                    {{name: "A", prio: 10, json: ifTwo}, {name: "A", prio: 10, json: ifA}},
		"nested entry removed, then intent deleted":                                       {{name: "A", prio: 10, json: ifSub}, {name: "A", prio: 10, json: ifA}, {name: "A", prio: 10, json: ""}},
		"same intent switches the choice case":                                            {{name: "A", prio: 10, json: case2}, {name: "A", prio: 10, json: case1}},
		"same intent switches the choice case back":                                       {{name: "A", prio: 10, json: case1}, {name: "A", prio: 10, json: case2}, {name: "A", prio: 10, json: case1}},
		"ruling intent with the other case is deleted":                                    {{name: "O2", prio: 10, json: case2}, {name: "O1", prio: 5, json: case1}, {name: "O1", prio: 5, json: ""}},
		"unchanged intent re-applied":                                                     {{name: "A", prio: 10, json: ifTwo}, {name: "A", prio: 10, json: ifTwo}},
		"unchanged intent with leaf-list and pattern re-applied":                          {{name: "A", prio: 10, json: llOne}, {name: "B", prio: 20, json: pattern}, {name: "A", prio: 10, json: llOne}},
		"unchanged intent whose leaf-list holds an entry twice re-applied":                {{name: "A", prio: 10, json: `{"leaflist":{"entry":["a","b","a"]}}`}, {name: "A", prio: 10, json: `{"leaflist":{"entry":["a","b","a"]}}`}},
		"leaf-list replaced":                                                              {{name: "A", prio: 10, json: llOne}, {name: "A", prio: 10, json: llTwo}},
		"leaf-list re-ordered, then an entry replaced":                                    {{name: "A", prio: 10, json: `{"leaflist":{"entry":["a","b","c"]}}`}, {name: "A", prio: 10, json: `{"leaflist":{"entry":["c","a","b"]}}`}, {name: "A", prio: 10, json: `{"leaflist":{"entry":["c","a","d"]}}`}},
		"intent deleted, then deleted again (the retry of a delete)":                      {{name: "A", prio: 10, json: ifA}, {name: "B", prio: 20, json: pattern}, {name: "A", prio: 10, json: ""}, {name: "A", prio: 10, json: ""}},
		"an intent that was never stored is deleted":                                      {{name: "B", prio: 20, json: pattern}, {name: "A", prio: 10, json: ""}},
		"priority of an intent changed":                                                   {{name: "A", prio: 10, json: ifA}, {name: "B", prio: 7, json: ifB}, {name: "A", prio: 5, json: ifA}},
		"presence container emptied, then intent deleted":                                 {{name: "A", prio: 10, json: case2}, {name: "A", prio: 10, json: case2E}, {name: "A", prio: 10, json: ""}},
		"presence container populated":                                                    {{name: "A", prio: 10, json: case2E}, {name: "A", prio: 10, json: case2}},
		"created intent cancelled, then another transaction":                              {{name: "B", prio: 20, json: pattern}, {name: "A", prio: 10, json: ifA, cancel: true}, {name: "C", prio: 30, json: llOne}},
		"changed intent cancelled":                                                        {{name: "A", prio: 10, json: ifA}, {name: "A", prio: 10, json: ifTwo, cancel: true}},
		"re-prioritised intent cancelled":                                                 {{name: "A", prio: 10, json: ifA}, {name: "B", prio: 7, json: ifB}, {name: "A", prio: 5, json: ifA, cancel: true}},
		"weaker intent adds the other case":                                               {{name: "O1", prio: 5, json: case1}, {name: "O2", prio: 10, json: case2}},
		"weaker intent adds a member of the winning case":                                 {{name: "O1", prio: 5, json: case1}, {name: "O3", prio: 8, json: case2}, {name: "O2", prio: 10, json: case1Log}},
		"stronger intent takes the choice over":                                           {{name: "O2", prio: 10, json: case2}, {name: "O1", prio: 5, json: case1}},
		"two intents shrink in one transaction":                                           {{name: "A", prio: 10, json: ifTwo}, {name: "B", prio: 20, json: ifTwo}, {name: "A", prio: 10, json: ifB, with: []vrcStep{{name: "B", prio: 20, json: ifA}}}},
		"two intents deleted in one transaction":                                          {{name: "A", prio: 10, json: ifTwo}, {name: "B", prio: 20, json: ifTwo}, {name: "C", prio: 30, json: ifA}, {name: "A", prio: 10, json: "", with: []vrcStep{{name: "B", prio: 20, json: ""}}}},
		"two intents set in one transaction":                                              {{name: "A", prio: 10, json: ifA, with: []vrcStep{{name: "B", prio: 5, json: ifTwo}}}, {name: "B", prio: 5, json: ""}},
		"unchanged shadowed intent re-applied":                                            {{name: "A", prio: 10, json: ifA}, {name: "B", prio: 5, json: ifB}, {name: "A", prio: 10, json: ifA}},
		"unchanged intent holding the ruling case re-applied":                             {{name: "O1", prio: 5, json: case1}, {name: "O2", prio: 10, json: case2}, {name: "O1", prio: 5, json: case1}},
		"unchanged intent holding the losing case re-applied":                             {{name: "O1", prio: 5, json: case1}, {name: "O2", prio: 10, json: case2}, {name: "O2", prio: 10, json: case2}},
		"neighbouring leaf of another intent in a plain container":                        {{name: "A", prio: 5, json: dkV1}, {name: "B", prio: 10, json: dkV2}, {name: "A", prio: 5, json: ""}},
		"intent shrinks next to a leaf of another intent":                                 {{name: "B", prio: 10, json: dkV2}, {name: "A", prio: 5, json: dkV1}, {name: "A", prio: 5, json: dkNone}},
		"presence holder deleted, another intent holds a child":                           {{name: "X", prio: 10, json: case2E}, {name: "Y", prio: 20, json: case2}, {name: "X", prio: 10, json: ""}},
		"presence holder deleted, a stronger intent holds a child":                        {{name: "Y", prio: 5, json: case2}, {name: "X", prio: 10, json: case2E}, {name: "X", prio: 10, json: ""}},
		"mandatory leaf dropped by a new revision of the intent":                          {{name: "A", prio: 10, json: bgpFull}, {name: "A", prio: 10, json: bgpNoRid, invalid: true}},
		"mandatory leaf missing from the start":                                           {{name: "A", prio: 10, json: bgpNoRid, invalid: true}},
		"mandatory list leaf dropped by a new revision":                                   {{name: "A", prio: 10, json: dkV1}, {name: "A", prio: 10, json: dkNoMand, invalid: true}},
		"leafref key source dropped by a new revision":                                    {{name: "A", prio: 10, json: refFull}, {name: "A", prio: 10, json: refNoIf, invalid: true}},
		"leafref target dropped by a new revision":                                        {{name: "A", prio: 10, json: refFull}, {name: "A", prio: 10, json: refNoSub, invalid: true}},
		"ruling intent switches the case, a weaker intent holds the old case":             {{name: "O1", prio: 15, json: case1Log}, {name: "O2", prio: 10, json: case1Log}, {name: "O2", prio: 10, json: case2}},
		"intent holding a presence container with mandatory leaves is deleted":            {{name: "A", prio: 10, json: bgpFull}, {name: "A", prio: 10, json: ""}},
		"intent gives up the presence container with its mandatory leaves":                {{name: "A", prio: 10, json: bgpFull}, {name: "A", prio: 10, json: `{"network-instance":[{"name":"default"}]}`}},
		"owner of a list entry with a mandatory leaf is deleted, another entry stays":     {{name: "A", prio: 10, json: dkV1}, {name: "B", prio: 20, json: `{"doublekey":[{"key1":"k9","key2":"k9","mandato":"m"}]}`}, {name: "A", prio: 10, json: ""}},
		"an entry with a mandatory leaf dropped by a new revision, a sibling entry stays": {{name: "A", prio: 10, json: `{"doublekey":[{"key1":"k1","key2":"k2","mandato":"m"},{"key1":"k3","key2":"k4","mandato":"n"}]}`}, {name: "A", prio: 10, json: `{"doublekey":[{"key1":"k1","key2":"k2","mandato":"m"}]}`}},
		"ruling intent deleted, the other case was shadowed from the start":               {{name: "O1", prio: 5, json: case1}, {name: "O2", prio: 10, json: case2}, {name: "O1", prio: 5, json: ""}},
		"ruling intent weakened below the holder of the other case":                       {{name: "O1", prio: 5, json: case1}, {name: "O2", prio: 10, json: case2}, {name: "O1", prio: 20, json: case1}},
		"unchanged intent re-applied next to a neighbour of the same priority":            {{name: "A", prio: 10, json: `{"patterntest":"hallo 0a"}`}, {name: "B", prio: 10, json: `{"patterntest":"hallo 0b"}`}, {name: "A", prio: 10, json: `{"patterntest":"hallo 0a"}`}},
		"ruling intent orphaned":                                                          {{name: "A", prio: 10, json: ifA}, {name: "B", prio: 20, json: ifTwo}, {name: "A", prio: 10, json: "", orphan: true}},
		"shadowed intent orphaned":                                                        {{name: "A", prio: 30, json: ifA}, {name: "B", prio: 20, json: ifTwo}, {name: "A", prio: 30, json: "", orphan: true}},
		"the only intent orphaned":                                                        {{name: "A", prio: 10, json: ifTwo}, {name: "A", prio: 10, json: "", orphan: true}},
		"the device holds a case on its own, an intent sets the other case":               {{device: true, json: case1}, {name: "A", prio: 10, json: case2}},
		"a value the device held on its own is overwritten, the transaction is cancelled": {{device: true, json: ifA}, {name: "A", prio: 10, json: ifB, cancel: true}},
		"a stronger intent takes the choice over, the transaction is cancelled":           {{name: "O2", prio: 10, json: case1}, {name: "O1", prio: 5, json: case2, cancel: true}},
		"delete request that carries updates":                                             {{name: "A", prio: 10, json: ifA}, {name: "B", prio: 20, json: pattern}, {name: "A", prio: 10, json: "", carries: ifTwo}},
		"orphan request that carries the current content":                                 {{name: "A", prio: 10, json: ifA}, {name: "A", prio: 10, json: "", orphan: true, carries: ifA}},
		"presence container of a case takes the choice over":                              {{name: "O2", prio: 10, json: case1}, {name: "O1", prio: 5, json: case2E}},
		"presence container of a case is the only contribution":                           {{name: "O1", prio: 5, json: case2E}},
		"deleted intent cancelled":                                                        {{name: "A", prio: 10, json: ifTwo}, {name: "A", prio: 10, json: "", cancel: true}},
	}
	// several intents in one transaction: what the intended store holds of any of them is a former version. The order in
	// which the intents of a transaction are processed is a map order, hence the repetitions.
	for run := 1; run <= 6; run++ {
		histories[fmt.Sprintf("mandatory list leaf dropped by one of two intents of a transaction (run %d)", run)] = []vrcStep{{name: "A", prio: 10, json: dkV1},
			{name: "A", prio: 10, json: dkNoMand, invalid: true, with: []vrcStep{{name: "B", prio: 20, json: pattern}}}}
		histories[fmt.Sprintf("ruling intent deleted and a weaker intent sets the other case in the same transaction (run %d)", run)] = []vrcStep{{name: "O1", prio: 5, json: case1},
			{name: "O1", prio: 5, json: "", with: []vrcStep{{name: "O2", prio: 10, json: case2}}}}
	}
	// list subinterface { max-elements 4095 }: 4100 entries
	{
		var sb strings.Builder
		sb.WriteString(`{"interface":[{"name":"ethernet-1/1","subinterface":[`)
		for i := 0; i < 4100; i++ {
			if i > 0 {
				sb.WriteString(",")
			}
			fmt.Fprintf(&sb, `{"index":%d}`, i)
		}
		sb.WriteString(`]}]}`)
		histories["more list entries than max-elements allows"] = []vrcStep{{name: "A", prio: 10, json: sb.String(), invalid: true}}
	}
	names := make([]string, 0, len(histories))
	for k := range histories {
		names = append(names, k)
	}
	sort.Strings(names)
	n := 0
	for _, hname := range names {
		steps := histories[hname]
		ctx := context.Background()
		ctrl := gomock.NewController(t)
		dc := &vrcCache{intended: map[string]*cache.Update{}, running: map[string]*cache.Update{}}
		cc := mockcacheclient.NewMockClient(ctrl)
		dc.wire(cc)
		device := map[string]string{}
		orphaned := false
		unmanaged := false
		sbi := mocktarget.NewMockTarget(ctrl)
		var handed []string // what the last Set was handed: "U path=value" / "D path"
		sbi.EXPECT().Set(gomock.Any(), gomock.Any()).AnyTimes().DoAndReturn(
			func(ctx context.Context, source target.TargetSource) (*sdcpb.SetDataResponse, error) {
				// the device applies the deletes, then the updates of what it is sent (also for rollbacks)
				dels, err := source.ToProtoDeletes(ctx)
				if err != nil {
					return nil, err
				}
				upds, err := source.ToProtoUpdates(ctx, true)
				if err != nil {
					return nil, err
				}
				handed = nil
				for _, del := range dels {
					handed = append(handed, "D "+utils.ToXPath(del, false))
				}
				for _, u := range upds {
					handed = append(handed, "U "+utils.ToXPath(u.GetPath(), false)+"="+utils.TypedValueToString(u.GetValue()))
				}
				for _, del := range dels {
					prefix := strings.Join(utils.ToStrings(del, false, false), "/")
					for k := range device {
						if k == prefix || strings.HasPrefix(k, prefix+"/") {
							delete(device, k)
						}
					}
				}
				for _, u := range upds {
					device[strings.Join(utils.ToStrings(u.GetPath(), false, false), "/")] = utils.TypedValueToString(u.GetValue())
				}
				return &sdcpb.SetDataResponse{}, nil
			})
		scl, schema, err := testhelper.InitSDCIOSchema()
		if err != nil {
			t.Fatal(err)
		}
		d := &Datastore{config: &config.DatastoreConfig{Name: "dev1", Schema: schema, Validation: &config.Validation{DisableConcurrency: true}},
			sbi: sbi, cacheClient: cc, schemaClient: schemaClient.NewSchemaClientBound(schema.GetSchema(), scl), dmutex: &sync.Mutex{}}
		d.transactionManager = types.NewTransactionManager(NewDatastoreRollbackAdapter(d))
		live := map[string]*vrcLive{}
		var done []string
		for si, st := range steps {
			n++
			all := append([]vrcStep{st}, st.with...)
			if st.device {
				ti, err := d.SdcpbTransactionIntentToInternalTI(ctx, &sdcpb.TransactionIntent{Intent: "unmanaged", Priority: 1,
					Update: []*sdcpb.Update{{Path: &sdcpb.Path{}, Value: &sdcpb.TypedValue{Value: &sdcpb.TypedValue_JsonVal{JsonVal: []byte(st.json)}}}}})
				if err != nil {
					t.Fatalf("%s: %v", hname, err)
				}
				dc.modify(&cache.Opts{Store: cachepb.Store_CONFIG}, nil, ti.GetUpdates())
				for _, u := range ti.GetUpdates() {
					tv, _ := u.Value()
					device[strings.Join(u.GetPath(), "/")] = utils.TypedValueToString(tv)
				}
				done = append(done, "device on its own:"+st.json)
				unmanaged = true
				continue
			}
			var descr []string
			for _, x := range all {
				descr = append(descr, fmt.Sprintf("%s@%d:%s", x.name, x.prio, map[bool]string{true: "delete", false: x.json}[x.json == ""]))
			}
			done = append(done, strings.Join(descr, " + ")+map[bool]string{true: " (cancelled)", false: ""}[st.cancel])
			in := fmt.Sprintf("history=%s,steps=%v", hname, done)
			var tis []*types.TransactionIntent
			unchanged := len(all) == 1
			before := map[string]*vrcLive{}
			for k, v := range live {
				before[k] = v
			}
			for _, x := range all {
				req := &sdcpb.TransactionIntent{Intent: x.name, Priority: x.prio}
				if x.json == "" {
					req.Delete = true
					req.Orphan = x.orphan
					if x.carries != "" {
						req.Update = []*sdcpb.Update{{Path: &sdcpb.Path{}, Value: &sdcpb.TypedValue{Value: &sdcpb.TypedValue_JsonVal{JsonVal: []byte(x.carries)}}}}
					}
					if x.orphan {
						orphaned = true
					}
				} else {
					req.Update = []*sdcpb.Update{{Path: &sdcpb.Path{}, Value: &sdcpb.TypedValue{Value: &sdcpb.TypedValue_JsonVal{JsonVal: []byte(x.json)}}}}
				}
				ti, err := d.SdcpbTransactionIntentToInternalTI(ctx, req)
				if err != nil {
					t.Fatalf("%s: %v", in, err)
				}
				tis = append(tis, ti)
				// what the intent says, through the real expansion (paths and typed values)
				if st.cancel {
					unchanged = false // nothing changes
				} else if x.json == "" {
					delete(live, x.name)
					unchanged = false
				} else {
					leaves := map[string]string{}
					for _, u := range ti.GetUpdates() {
						tv, _ := u.Value()
						leaves[strings.Join(u.GetPath(), "/")] = utils.TypedValueToString(tv)
					}
					if old, ok := live[x.name]; !(ok && old.prio == x.prio && fmt.Sprint(old.leaves) == fmt.Sprint(leaves)) {
						unchanged = false
					}
					live[x.name] = &vrcLive{prio: x.prio, leaves: leaves}
				}
			}
			if st.cancel {
				// (the oracle above was not updated; the block below only computes `leaves` for set steps)
			}
			id := fmt.Sprintf("t%d", si)
			deviceBefore := map[string]string{}
			for k, v := range device {
				deviceBefore[k] = v
			}
			var rsp *sdcpb.TransactionSetResponse
			failed := false
			func() {
				defer func() {
					if r := recover(); r != nil {
						failed = true
						fmt.Printf("REPLAY-FAIL fn=%s clause=panic input=%s panic=%v\n", fnLL, in, r)
					}
				}()
				handed = nil
				rsp, err = d.TransactionSet(ctx, id, tis, nil, time.Minute, false)
			}()
			setHanded := append([]string{}, handed...)
			if failed {
				break
			}
			if err != nil {
				fmt.Printf("REPLAY-FAIL fn=%s clause=a_refusal_comes_from_a_step_that_failed input=%s why=no fault was injected, yet the request is refused: %v\n", fnLL, in, err)
				break
			}
			rejected := false
			for _, ir := range rsp.GetIntents() {
				if len(ir.GetErrors()) > 0 {
					rejected = true
					if !st.invalid {
						fmt.Printf("REPLAY-FAIL fn=%s clause=panic input=%s why=unexpected validation errors %v\n", fnLL, in, ir.GetErrors())
					}
				}
			}
			if st.invalid {
				// C04: the verdict is the validity of the configuration that would result, whatever the history
				if !rejected {
					clause := "verdict_is_validity_of_the_result"
					short := in
					if hname == "more list entries than max-elements allows" {
						clause += ".known" // recorded finding: max-elements / min-elements of lists are not checked
						short = "history=" + hname + ",steps=[A@10: interface ethernet-1/1 with 4100 subinterface entries (max-elements 4095)]"
					}
					for _, fn := range []string{fnLL, "(*tree.sharedEntryAttributes).validateMandatoryWithKeys"} {
						fmt.Printf("REPLAY-FAIL fn=%s clause=%s input=%s why=the resulting configuration violates the schema, yet the transaction was accepted\n", fn, clause, short)
					}
					break
				}
				live = before
				continue
			}
			if rejected {
				break
			}
			if st.cancel {
				if err := d.TransactionCancel(ctx, id); err != nil {
					fmt.Printf("REPLAY-FAIL fn=%s clause=panic input=%s why=cancel failed: %v\n", fnLL, in, err)
					break
				}
				// C05: a cancelled transaction leaves the device as it was before it
				var cd []string
				for k, v := range deviceBefore {
					if g, ok := device[k]; !ok {
						cd = append(cd, fmt.Sprintf("missing /%s=%s", k, v))
					} else if g != v {
						cd = append(cd, fmt.Sprintf("/%s is %s, was %s", k, g, v))
					}
				}
				for k, v := range device {
					if _, ok := deviceBefore[k]; !ok {
						cd = append(cd, fmt.Sprintf("left behind /%s=%s", k, v))
					}
				}
				sort.Strings(cd)
				if len(cd) > 0 {
					// (reported here once: the comparison with the merge of the live intents would only repeat it)
					unmanaged = true
					clause := "cancel_restores_the_device"
					if hname == "a value the device held on its own is overwritten, the transaction is cancelled" || hname == "a stronger intent takes the choice over, the transaction is cancelled" {
						clause += ".known" // recorded findings: unmanaged values are not given back; the former case is not loaded into the rollback tree
					}
					for _, f := range []string{fnLL} {
						fmt.Printf("REPLAY-FAIL fn=%s clause=%s input=%s why=after the cancel the device differs from what it held before the transaction: %s\n", f, clause, in, strings.Join(cd, "; "))
					}
				}
			} else if err := d.TransactionConfirm(ctx, id); err != nil {
				// an accepted, applied transaction is open until it is confirmed
				fmt.Printf("REPLAY-FAIL fn=%s clause=accepted_run_is_applied input=%s why=the transaction was accepted, yet it cannot be confirmed: %v\n", fnLL, in, err)
				break
			}
			// C03: the response of the run reports what the device was handed (and so does the dry run, which takes the
			// same way up to the device)
			{
				var reported []string
				for _, dp := range rsp.GetDelete() {
					reported = append(reported, "D "+utils.ToXPath(dp, false))
				}
				for _, u := range rsp.GetUpdate() {
					reported = append(reported, "U "+utils.ToXPath(u.GetPath(), false)+"="+utils.TypedValueToString(u.GetValue()))
				}
				got := setHanded
				sort.Strings(reported)
				sort.Strings(got)
				if strings.Join(reported, "; ") != strings.Join(got, "; ") {
					for _, fn := range []string{fnLL, "datastore.cacheUpdateToSdcpbUpdate"} {
						fmt.Printf("REPLAY-FAIL fn=%s clause=the_response_reports_what_goes_to_the_device input=%s why=the response reports [%s], the device was handed [%s]\n", fn, in, strings.Join(reported, "; "), strings.Join(got, "; "))
					}
				}
			}
			// C09
			if unchanged && (len(rsp.GetUpdate()) > 0 || len(rsp.GetDelete()) > 0) {
				clause := "quiet"
				if hname == "unchanged intent re-applied next to a neighbour of the same priority" {
					clause = "quiet_among_equal_priorities.known" // recorded finding: the intent of the transaction wins a tie, so two intents of one priority take turns
				}
				if hname == "unchanged intent holding the ruling case re-applied" && len(rsp.GetUpdate()) == 0 && len(rsp.GetDelete()) == 1 &&
					strings.Join(utils.ToStrings(rsp.GetDelete()[0], false, false), "/") == "choices/case2" {
					clause += ".known" // recorded finding: the case another intent holds is deleted again (it is not on the device)
				}
				for _, fn := range []string{"(*tree.LeafVariants).GetHighestPrecedence", fnLL} {
					fmt.Printf("REPLAY-FAIL fn=%s clause=%s input=%s why=the intent is unchanged, yet %d update(s) and %d delete(s) are sent: %v %v\n", fn, clause, in, len(rsp.GetUpdate()), len(rsp.GetDelete()), rsp.GetUpdate(), rsp.GetDelete())
				}
				if !strings.HasSuffix(clause, ".known") && len(rsp.GetUpdate()) > 0 {
					fmt.Printf("REPLAY-FAIL fn=%s clause=compares_values input=%s why=the intent is unchanged and the device runs its values, yet %d update(s) are sent: %v\n", "(*tree.LeafVariants).highestIsUnequalRunning", in, len(rsp.GetUpdate()), rsp.GetUpdate())
				}
			}
			// C01: expected device
			want := map[string]string{}
			best := map[string]int32{}
			tied := map[string]map[string]bool{} // path -> the values of the intents that share the best priority
			for _, lv := range live {
				for p, v := range lv.leaves {
					if bp, ok := best[p]; !ok || lv.prio < bp {
						best[p] = lv.prio
						want[p] = v
						tied[p] = map[string]bool{v: true}
					} else if lv.prio == bp {
						tied[p][v] = true
					}
				}
			}
			// the statement names the intent with the lowest priority value: among intents that share it every one of their
			// values is accepted
			for p, vs := range tied {
				if g, ok := device[p]; ok && vs[g] {
					want[p] = g
				}
			}
			// the choice below /choices: only the case with the best contribution
			caseBest := map[string]int32{}
			for p, pr := range best {
				for _, cs := range []string{"choices/case1", "choices/case2"} {
					if p == cs || strings.HasPrefix(p, cs+"/") {
						if b, ok := caseBest[cs]; !ok || pr < b {
							caseBest[cs] = pr
						}
					}
				}
			}
			if len(caseBest) == 2 {
				loser := "choices/case1"
				if caseBest["choices/case1"] < caseBest["choices/case2"] {
					loser = "choices/case2"
				}
				for p := range want {
					if p == loser || strings.HasPrefix(p, loser+"/") {
						delete(want, p)
					}
				}
			}
			// a presence container that has content below it exists through that content: its own (empty) marker says
			// nothing more, on the device as in the expectation
			for _, m := range []map[string]string{want, device} {
				for p, v := range m {
					if v != "{}" {
						continue
					}
					for q := range m {
						if strings.HasPrefix(q, p+"/") {
							delete(m, p)
							break
						}
					}
				}
			}
			var diffs []string
			for p, v := range want {
				if g, ok := device[p]; !ok {
					diffs = append(diffs, fmt.Sprintf("missing /%s=%s", p, v))
				} else if g != v {
					diffs = append(diffs, fmt.Sprintf("/%s is %s, should be %s", p, g, v))
				}
			}
			for p, v := range device {
				if _, ok := want[p]; !ok {
					diffs = append(diffs, fmt.Sprintf("stale /%s=%s", p, v))
				}
			}
			sort.Strings(diffs)
			// (what an orphaned intent leaves on the device is no longer described by the live intents: the device is not
			// compared from then on, the intended store still is)
			if len(diffs) > 0 && !orphaned && !unmanaged {
				clause, fn := "device_holds_the_merge", fnLL
				if (hname == "ruling intent with the other case is deleted" || hname == "ruling intent deleted, the other case was shadowed from the start") && len(diffs) == 1 && strings.HasPrefix(diffs[0], "missing /choices/case2") {
					clause += ".known" // recorded finding: the other intents' nodes of a case that becomes active are not loaded into the tree
				}
				if hname == "ruling intent weakened below the holder of the other case" && len(diffs) == 2 && strings.HasPrefix(diffs[0], "missing /choices/case2") && strings.HasPrefix(diffs[1], "stale /choices/case1") {
					clause += ".known" // the same finding: the case that wins now is not in the tree, so nothing is sent and nothing is deleted
				}
				if hname == "ruling intent switches the case, a weaker intent holds the old case" && len(diffs) == 1 && diffs[0] == "stale /choices/case1/log=true" {
					clause += ".known" // recorded finding: the old case is not recognised as the former ruler when a weaker intent holds it too
				}
				for _, df := range diffs {
					if strings.HasPrefix(df, "stale") {
						fn = fnG
					}
				}
				fmt.Printf("REPLAY-FAIL fn=%s clause=%s input=%s why=device differs from the merge of the live intents: %s\n", fn, clause, in, strings.Join(diffs, "; "))
				if strings.Contains(hname, "case") && !strings.HasSuffix(clause, ".known") {
					for _, f := range []string{"(*tree.sharedEntryAttributes).populateChoiceCaseResolvers", "(*tree.sharedEntryAttributes).getHighestPrecedenceValueOfBranch"} {
						fmt.Printf("REPLAY-FAIL fn=%s clause=%s input=%s why=device differs from the merge of the live intents: %s\n", f, clause, in, strings.Join(diffs, "; "))
					}
				}
				if fn != fnLL {
					fmt.Printf("REPLAY-FAIL fn=%s clause=%s input=%s why=device differs from the merge of the live intents: %s\n", fnLL, clause, in, strings.Join(diffs, "; "))
				}
			}
			// C08: whoever held the former case, the device is not left with two cases of the choice
			{
				c1, c2 := false, false
				for p := range device {
					c1 = c1 || strings.HasPrefix(p, "choices/case1/")
					c2 = c2 || strings.HasPrefix(p, "choices/case2/")
				}
				if c1 && c2 && unmanaged {
					// recorded finding: a former case that only the device holds is not recognised as the former ruler
					fmt.Printf("REPLAY-FAIL fn=%s clause=a_case_only_the_device_holds_is_replaced.known input=%s why=the device holds members of case1 and of case2\n", "(*tree.sharedEntryAttributes).populateChoiceCaseResolvers", in)
				}
			}
			// C02: intended store content
			wantI := []string{}
			for name, lv := range live {
				for p, v := range lv.leaves {
					wantI = append(wantI, fmt.Sprintf("%s %d /%s=%s", name, lv.prio, p, v))
				}
			}
			gotI := []string{}
			dc.m.Lock()
			for _, u := range dc.intended {
				tv, _ := u.Value()
				gotI = append(gotI, fmt.Sprintf("%s %d /%s=%s", u.Owner(), u.Priority(), strings.Join(u.GetPath(), "/"), utils.TypedValueToString(tv)))
			}
			dc.m.Unlock()
			sort.Strings(wantI)
			sort.Strings(gotI)
			if strings.Join(wantI, "; ") != strings.Join(gotI, "; ") {
				fmt.Printf("REPLAY-FAIL fn=%s clause=children_are_always_visited input=%s why=intended store holds [%s], the live intents are [%s]\n", "(*tree.sharedEntryAttributes).GetByOwner", in, strings.Join(gotI, "; "), strings.Join(wantI, "; "))
				fmt.Printf("REPLAY-FAIL fn=%s clause=intended_store_is_the_live_intents input=%s why=intended store holds [%s], the live intents are [%s]\n", fnLL, in, strings.Join(gotI, "; "), strings.Join(wantI, "; "))
				fmt.Printf("REPLAY-FAIL fn=%s clause=changed_value_is_update input=%s why=intended store holds [%s], the live intents are [%s]\n", "(*tree.LeafVariants).Add", in, strings.Join(gotI, "; "), strings.Join(wantI, "; "))
				if orphaned {
					for _, f := range []string{"(*tree.LeafEntry).MarkDelete", "(*tree.sharedEntryAttributes).markOwnerDelete"} {
						fmt.Printf("REPLAY-FAIL fn=%s clause=orphan_flag input=%s why=intended store holds [%s], the live intents are [%s]\n", f, in, strings.Join(gotI, "; "), strings.Join(wantI, "; "))
					}
				}
			}
		}
	}
	fmt.Printf("REPLAY-CASES fn=%s n=%d\n", fnLL, n)
	fmt.Printf("REPLAY-CASES fn=%s n=%d\n", fnG, n)
	fmt.Printf("REPLAY-CASES fn=%s n=%d\n", "(*tree.sharedEntryAttributes).populateChoiceCaseResolvers", n)
	fmt.Printf("REPLAY-CASES fn=%s n=%d\n", "(*tree.LeafVariants).Add", n)
	fmt.Printf("REPLAY-CASES fn=%s n=%d\n", "datastore.cacheUpdateToSdcpbUpdate", n)
	fmt.Printf("REPLAY-CASES fn=%s n=%d\n", "(*tree.LeafVariants).highestIsUnequalRunning", n)
}
