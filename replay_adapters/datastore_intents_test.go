package datastore

// Bounded stand-in (injected via `go test -overlay`) for the request part of C20: the real conversion of a
// TransactionIntent (SdcpbTransactionIntentToInternalTI -> expandAndConvertIntent -> Converter.ExpandUpdates) is fed a
// grid of JSON payloads and update shapes a client can send: values of unexpected JSON types for leafs, leaf-lists, lists,
// keys, containers and the empty type, null in every position, updates without a value, paths ending inside list keys.
// Every call has to come back with an intent or an error; none may panic.

import (
	"context"
	"fmt"
	"strings"
	"sync"
	"testing"

	"github.com/sdcio/data-server/mocks/mockcacheclient"
	"github.com/sdcio/data-server/pkg/config"
	schemaClient "github.com/sdcio/data-server/pkg/datastore/clients/schema"
	"github.com/sdcio/data-server/pkg/datastore/types"
	"github.com/sdcio/data-server/pkg/utils"
	"github.com/sdcio/data-server/pkg/utils/testhelper"
	sdcpb "github.com/sdcio/sdc-protos/sdcpb"
	"go.uber.org/mock/gomock"
	"google.golang.org/protobuf/proto"
)

func TestVerifReplayIntents(t *testing.T) {
	fns := []string{"(*datastore.Datastore).SdcpbTransactionIntentToInternalTI", "(*datastore.Datastore).expandAndConvertIntent",
		"(*utils.Converter).ExpandUpdates", "(*utils.Converter).ExpandUpdate", "(*utils.Converter).ExpandUpdateKeysAsLeaf", "(*utils.Converter).ExpandContainerValue"}
	ctx := context.Background()
	ctrl := gomock.NewController(t)
	cc := mockcacheclient.NewMockClient(ctrl)
	testhelper.ConfigureCacheClientMock(t, cc, nil, nil, nil, nil)
	scl, schema, err := testhelper.InitSDCIOSchema()
	if err != nil {
		t.Fatal(err)
	}
	d := &Datastore{config: &config.DatastoreConfig{Name: "dev1", Schema: schema, Validation: &config.Validation{DisableConcurrency: true}},
		cacheClient: cc, schemaClient: schemaClient.NewSchemaClientBound(schema.GetSchema(), scl), dmutex: &sync.Mutex{}}
	d.transactionManager = types.NewTransactionManager(NewDatastoreRollbackAdapter(d))

	n := 0
	try := func(in string, req *sdcpb.TransactionIntent) {
		n++
		defer func() {
			if r := recover(); r != nil {
				for _, fn := range fns {
					fmt.Printf("REPLAY-FAIL fn=%s clause=panic input=%s panic=%v\n", fn, in, r)
				}
			}
		}()
		d.SdcpbTransactionIntentToInternalTI(ctx, req)
	}
	jsonUpd := func(path *sdcpb.Path, js string, ietf bool) *sdcpb.Update {
		if ietf {
			return &sdcpb.Update{Path: path, Value: &sdcpb.TypedValue{Value: &sdcpb.TypedValue_JsonIetfVal{JsonIetfVal: []byte(js)}}}
		}
		return &sdcpb.Update{Path: path, Value: &sdcpb.TypedValue{Value: &sdcpb.TypedValue_JsonVal{JsonVal: []byte(js)}}}
	}
	// JSON documents at the root: every position filled with every JSON kind
	kinds := []string{`null`, `true`, `1`, `1.5`, `"x"`, `[]`, `[null]`, `[1]`, `["a","b"]`, `[[]]`, `[{}]`, `{}`, `{"x":1}`, `[{"name":"e1"}]`, `[{"name":null}]`, `[{"name":1}]`, `[{"name":["a"]}]`}
	spots := []string{
		`%s`,
		`{"interface":%s}`,
		`{"interface":[{"name":"e1","description":%s}]}`,
		`{"interface":[{"name":%s}]}`,
		`{"interface":[{"name":"e1","subinterface":%s}]}`,
		`{"interface":[{"name":"e1","subinterface":[{"index":%s}]}]}`,
		`{"leaflist":%s}`,
		`{"leaflist":{"entry":%s}}`,
		`{"emptyconf":%s}`,
		`{"choices":%s}`,
		`{"choices":{"case1":%s}}`,
		`{"choices":{"case2":{"log":%s}}}`,
		`{"doublekey":%s}`,
		`{"doublekey":[{"key1":"a","key2":%s}]}`,
		`{"doublekey":[{"key1":"a","key2":"b","cont":%s}]}`,
		`{"network-instance":[{"name":"default","protocol":{"bgp":%s}}]}`,
		`{"nosuchthing":%s}`,
		`{"patterntest":%s}`,
		`{"rangetestunsigned":%s}`,
	}
	for _, spot := range spots {
		for _, k := range kinds {
			for _, ietf := range []bool{false, true} {
				js := fmt.Sprintf(spot, k)
				try(fmt.Sprintf("root update, json_ietf=%v, value=%s", ietf, js), &sdcpb.TransactionIntent{Intent: "i", Priority: 5, Update: []*sdcpb.Update{jsonUpd(&sdcpb.Path{}, js, ietf)}})
			}
		}
	}
	// updates on deeper paths, with typed, JSON and absent values
	ifp := func(elems ...*sdcpb.PathElem) *sdcpb.Path { return &sdcpb.Path{Elem: elems} }
	paths := map[string]*sdcpb.Path{
		"nil path":                   nil,
		"root":                       {},
		"list without keys":          ifp(&sdcpb.PathElem{Name: "interface"}),
		"list entry":                 ifp(&sdcpb.PathElem{Name: "interface", Key: map[string]string{"name": "e1"}}),
		"list entry, unknown key":    ifp(&sdcpb.PathElem{Name: "interface", Key: map[string]string{"nokey": "e1"}}),
		"leaf":                       ifp(&sdcpb.PathElem{Name: "interface", Key: map[string]string{"name": "e1"}}, &sdcpb.PathElem{Name: "description"}),
		"key leaf":                   ifp(&sdcpb.PathElem{Name: "interface", Key: map[string]string{"name": "e1"}}, &sdcpb.PathElem{Name: "name"}),
		"two-key entry, one key":     ifp(&sdcpb.PathElem{Name: "doublekey", Key: map[string]string{"key1": "a"}}),
		"leaf-list":                  ifp(&sdcpb.PathElem{Name: "leaflist"}, &sdcpb.PathElem{Name: "entry"}),
		"presence container":         ifp(&sdcpb.PathElem{Name: "choices"}, &sdcpb.PathElem{Name: "case2"}),
		"empty leaf":                 ifp(&sdcpb.PathElem{Name: "emptyconf"}),
		"unknown element":            ifp(&sdcpb.PathElem{Name: "nosuchthing"}),
		"element with an empty name": ifp(&sdcpb.PathElem{Name: ""}),
		"nil element":                ifp(nil),
	}
	values := map[string]*sdcpb.TypedValue{
		"absent":       nil,
		"no value set": {},
		"string":       {Value: &sdcpb.TypedValue_StringVal{StringVal: "x"}},
		"uint":         {Value: &sdcpb.TypedValue_UintVal{UintVal: 7}},
		"empty":        {Value: &sdcpb.TypedValue_EmptyVal{}},
		"leaflist":     {Value: &sdcpb.TypedValue_LeaflistVal{LeaflistVal: &sdcpb.ScalarArray{Element: []*sdcpb.TypedValue{{Value: &sdcpb.TypedValue_StringVal{StringVal: "a"}}, nil}}}},
		// (a oneof wrapper with a nil inner message, e.g. TypedValue_LeaflistVal{}, cannot come off the wire: the decoder
		// allocates the inner message; it is not in the grid)
		"json null":     {Value: &sdcpb.TypedValue_JsonVal{JsonVal: []byte(`null`)}},
		"json string":   {Value: &sdcpb.TypedValue_JsonVal{JsonVal: []byte(`"x"`)}},
		"json object":   {Value: &sdcpb.TypedValue_JsonVal{JsonVal: []byte(`{"description":"d"}`)}},
		"json array":    {Value: &sdcpb.TypedValue_JsonVal{JsonVal: []byte(`[]`)}},
		"json root obj": {Value: &sdcpb.TypedValue_JsonVal{JsonVal: []byte(`{"patterntest":"hallo 00"}`)}},
		"json root lst": {Value: &sdcpb.TypedValue_JsonIetfVal{JsonIetfVal: []byte(`{"interface":[{"name":"ethernet-1/1","description":"x"}]}`)}},
		"json broken":   {Value: &sdcpb.TypedValue_JsonVal{JsonVal: []byte(`{`)}},
		"json empty":    {Value: &sdcpb.TypedValue_JsonVal{JsonVal: []byte{}}},
		"json ietf obj": {Value: &sdcpb.TypedValue_JsonIetfVal{JsonIetfVal: []byte(`{"sdcio_model:description":"d"}`)}},
	}
	for pn, p := range paths {
		for vn, v := range values {
			try(fmt.Sprintf("update path=%s, value=%s", pn, vn), &sdcpb.TransactionIntent{Intent: "i", Priority: 5, Update: []*sdcpb.Update{{Path: p, Value: v}}})
		}
	}
	// what a device sends: notifications through the same converter (storeSyncMsg -> ConvertNotificationTypedValues)
	nfns := []string{"(*utils.Converter).ConvertNotificationTypedValues", "utils.convertUpdateTypedValue", "utils.TypedValueToYANGType"}
	conv := utils.NewConverter(d.schemaClient)
	m := 0
	for pn, p := range paths {
		for vn, v := range values {
			m++
			in := fmt.Sprintf("notification update path=%s, value=%s", pn, vn)
			func() {
				defer func() {
					if r := recover(); r != nil {
						for _, fn := range nfns {
							fmt.Printf("REPLAY-FAIL fn=%s clause=panic input=%s panic=%v\n", fn, in, r)
						}
					}
				}()
				var cp *sdcpb.Path
				if p != nil {
					cp = proto.Clone(p).(*sdcpb.Path)
				}
				conv.ConvertNotificationTypedValues(ctx, &sdcpb.Notification{Update: []*sdcpb.Update{{Path: cp, Value: v}}})
			}()
		}
	}
	for _, fn := range nfns {
		fmt.Printf("REPLAY-CASES fn=%s n=%d\n", fn, m)
	}
	// the key leaves of the list entries on the path of an update are part of its expansion, whatever the value is
	{
		fnE := "(*utils.Converter).ExpandUpdate"
		for vn, v := range map[string]*sdcpb.TypedValue{
			"empty (presence container)": {Value: &sdcpb.TypedValue_EmptyVal{}},
			"json object":                {Value: &sdcpb.TypedValue_JsonVal{JsonVal: []byte(`{"admin-state":"enable","autonomous-system":65000,"router-id":"1.1.1.1"}`)}},
		} {
			m++
			p := ifp(&sdcpb.PathElem{Name: "network-instance", Key: map[string]string{"name": "default"}}, &sdcpb.PathElem{Name: "protocol"}, &sdcpb.PathElem{Name: "bgp"})
			upds, err := conv.ExpandUpdate(ctx, &sdcpb.Update{Path: p, Value: v}, true)
			hasKey := false
			for _, u := range upds {
				if utils.ToXPath(u.GetPath(), false) == "network-instance[name=default]/name" {
					hasKey = true
				}
			}
			if err != nil || !hasKey {
				fmt.Printf("REPLAY-FAIL fn=%s clause=key_leaves_are_part_of_the_expansion input=update path=network-instance[name=default]/protocol/bgp, value=%s why=expanded to %d updates without network-instance[name=default]/name (err %v): the entry is stored without its key and deleted again by the next transaction\n", fnE, vn, len(upds), err)
			}
		}
	}
	try("nil update in the list", &sdcpb.TransactionIntent{Intent: "i", Priority: 5, Update: []*sdcpb.Update{nil}})
	try("no updates, delete flag", &sdcpb.TransactionIntent{Intent: "i", Priority: 5, Delete: true})
	for _, fn := range fns {
		fmt.Printf("REPLAY-CASES fn=%s n=%d\n", fn, n)
	}
}

// TestVerifReplayExpandPaths (C11): the keys of a list entry reach the expanded paths whichever way the request gives
// them: all in the path, all in the JSON value, or split between the two. Every expanded path names the entry by all
// of its keys, and entries that differ in one key value never share a path.
func TestVerifReplayExpandPaths(t *testing.T) {
	fns := []string{"(*utils.Converter).ExpandContainerValue", "(*utils.Converter).ExpandUpdate"}
	ctx := context.Background()
	scl, schema, err := testhelper.InitSDCIOSchema()
	if err != nil {
		t.Fatal(err)
	}
	conv := utils.NewConverter(schemaClient.NewSchemaClientBound(schema.GetSchema(), scl))
	n := 0
	type shape struct {
		name string
		path func(k1, k2 string) *sdcpb.Path
		js   func(k1, k2 string) string
	}
	dk := func(keys map[string]string) *sdcpb.Path {
		return &sdcpb.Path{Elem: []*sdcpb.PathElem{{Name: "doublekey", Key: keys}}}
	}
	shapes := []shape{
		{"both keys in the path", func(k1, k2 string) *sdcpb.Path { return dk(map[string]string{"key1": k1, "key2": k2}) }, func(k1, k2 string) string { return `{"mandato":"x"}` }},
		{"both keys in the path and in the value", func(k1, k2 string) *sdcpb.Path { return dk(map[string]string{"key1": k1, "key2": k2}) }, func(k1, k2 string) string {
			return fmt.Sprintf(`{"key1":%q,"key2":%q,"mandato":"x"}`, k1, k2)
		}},
		{"both keys in the value", func(k1, k2 string) *sdcpb.Path { return dk(nil) }, func(k1, k2 string) string {
			return fmt.Sprintf(`{"key1":%q,"key2":%q,"mandato":"x"}`, k1, k2)
		}},
		{"entries as an array at the root", func(k1, k2 string) *sdcpb.Path { return &sdcpb.Path{} }, func(k1, k2 string) string {
			return fmt.Sprintf(`{"doublekey":[{"key1":%q,"key2":%q,"mandato":"x"}]}`, k1, k2)
		}},
		{"first key in the path, second in the value", func(k1, k2 string) *sdcpb.Path { return dk(map[string]string{"key1": k1}) }, func(k1, k2 string) string {
			return fmt.Sprintf(`{"key2":%q,"mandato":"x"}`, k2)
		}},
		{"second key in the path, first in the value", func(k1, k2 string) *sdcpb.Path { return dk(map[string]string{"key2": k2}) }, func(k1, k2 string) string {
			return fmt.Sprintf(`{"key1":%q,"mandato":"x"}`, k1)
		}},
	}
	entries := [][2]string{{"one", "k2"}, {"two", "k2"}, {"k1", "one"}, {"k1", "two"}, {"k2", "k1"}}
	for _, keysAsLeaf := range []bool{false, true} {
		for _, sh := range shapes {
			seen := map[string]string{}
			for _, e := range entries {
				n++
				in := fmt.Sprintf("list doublekey, %s, keysAsLeaf=%v, entry key1=%s key2=%s", sh.name, keysAsLeaf, e[0], e[1])
				var upds []*sdcpb.Update
				var err error
				func() {
					defer func() {
						if r := recover(); r != nil {
							err = fmt.Errorf("panic: %v", r)
							for _, fn := range fns {
								fmt.Printf("REPLAY-FAIL fn=%s clause=panic input=%s panic=%v\n", fn, in, r)
							}
						}
					}()
					upds, err = conv.ExpandUpdate(ctx, &sdcpb.Update{Path: sh.path(e[0], e[1]), Value: &sdcpb.TypedValue{Value: &sdcpb.TypedValue_JsonVal{JsonVal: []byte(sh.js(e[0], e[1]))}}}, keysAsLeaf)
				}()
				if err != nil && strings.HasPrefix(sh.name, "both keys in the path and in the value") && !strings.HasPrefix(err.Error(), "panic") {
					// a key given twice is refused: an answer, not a wrong path
					continue
				}
				if err != nil {
					for _, fn := range fns {
						fmt.Printf("REPLAY-FAIL fn=%s clause=every_key_reaches_the_expanded_path input=%s why=error %v\n", fn, in, err)
					}
					continue
				}
				want := fmt.Sprintf("doublekey[key1=%s][key2=%s]/", e[0], e[1])
				var got []string
				bad := false
				for _, u := range upds {
					xp := utils.ToXPath(u.GetPath(), false)
					got = append(got, xp)
					if !strings.HasPrefix(xp, want) {
						bad = true
					}
					if other, dup := seen[xp]; dup && other != e[0]+","+e[1] {
						for _, fn := range fns {
							fmt.Printf("REPLAY-FAIL fn=%s clause=different_entries_never_share_a_path input=%s why=path %s is also the path of entry %s\n", fn, in, xp, other)
						}
					}
					seen[xp] = e[0] + "," + e[1]
				}
				hasLeaf := false
				for _, g := range got {
					if g == want+"mandato" {
						hasLeaf = true
					}
				}
				if bad || !hasLeaf {
					for _, fn := range fns {
						fmt.Printf("REPLAY-FAIL fn=%s clause=every_key_reaches_the_expanded_path input=%s why=expanded to %v, expected every path below %s\n", fn, in, got, want)
					}
				}
			}
		}
	}
	// the value of a string leaf is the text the request gave: a JSON null, object or array has none and is refused
	// (it is not stored as the text Go prints for it)
	for _, js := range []string{`{"patterntest":null}`, `{"patterntest":{"a":1}}`, `{"patterntest":["hallo 00"]}`, `{"interface":[{"name":"e1","description":null}]}`, `{"interface":[{"name":"e1","description":{"x":"y"}}]}`} {
		n++
		upds, err := conv.ExpandUpdate(ctx, &sdcpb.Update{Path: &sdcpb.Path{}, Value: &sdcpb.TypedValue{Value: &sdcpb.TypedValue_JsonVal{JsonVal: []byte(js)}}}, true)
		if err == nil {
			var got []string
			for _, u := range upds {
				got = append(got, utils.ToXPath(u.GetPath(), false)+"="+utils.TypedValueToString(u.GetValue()))
			}
			for _, fn := range fns {
				fmt.Printf("REPLAY-FAIL fn=%s clause=a_leaf_takes_a_scalar input=root update %s why=accepted and expanded to %v\n", fn, js, got)
			}
		}
	}
	for _, js := range []string{`{"patterntest":"hallo 00"}`, `{"rangetestunsigned":5}`, `{"interface":[{"name":"e1","admin-state":"enable"}]}`} {
		n++
		if _, err := conv.ExpandUpdate(ctx, &sdcpb.Update{Path: &sdcpb.Path{}, Value: &sdcpb.TypedValue{Value: &sdcpb.TypedValue_JsonVal{JsonVal: []byte(js)}}}, true); err != nil {
			for _, fn := range fns {
				fmt.Printf("REPLAY-FAIL fn=%s clause=a_leaf_takes_a_scalar input=root update %s why=refused: %v\n", fn, js, err)
			}
		}
	}
	// an empty object addressed to a presence container is the container itself, as it is one level up
	for _, c := range []struct {
		name string
		path *sdcpb.Path
		js   string
	}{
		{"update on /choices/case2 with {}", &sdcpb.Path{Elem: []*sdcpb.PathElem{{Name: "choices"}, {Name: "case2"}}}, `{}`},
		{"update on /choices with {\"case2\":{}}", &sdcpb.Path{Elem: []*sdcpb.PathElem{{Name: "choices"}}}, `{"case2":{}}`},
		{"update on the root with {\"choices\":{\"case2\":{}}}", &sdcpb.Path{}, `{"choices":{"case2":{}}}`},
	} {
		for _, ietf := range []bool{false, true} {
			n++
			v := &sdcpb.TypedValue{Value: &sdcpb.TypedValue_JsonVal{JsonVal: []byte(c.js)}}
			if ietf {
				v = &sdcpb.TypedValue{Value: &sdcpb.TypedValue_JsonIetfVal{JsonIetfVal: []byte(c.js)}}
			}
			in := fmt.Sprintf("%s, json_ietf=%v", c.name, ietf)
			upds, err := conv.ExpandUpdate(ctx, &sdcpb.Update{Path: c.path, Value: v}, true)
			found := false
			for _, u := range upds {
				if _, isEmpty := u.GetValue().GetValue().(*sdcpb.TypedValue_EmptyVal); isEmpty && utils.ToXPath(u.GetPath(), false) == "choices/case2" {
					found = true
				}
			}
			if err != nil || !found || len(upds) != 1 {
				for _, fn := range fns {
					fmt.Printf("REPLAY-FAIL fn=%s clause=an_empty_object_on_a_presence_container_is_the_container input=%s why=expanded to %d update(s) (err %v), expected the one update choices/case2 = empty: the request is accepted and nothing is stored for it\n", fn, in, len(upds), err)
				}
			}
		}
	}
	for _, fn := range fns {
		fmt.Printf("REPLAY-CASES fn=%s n=%d\n", fn, n)
	}
}
