package tree

// Replay adapter (injected via `go test -overlay`): bounded stand-in for the rendering part of C10 on the repository's
// test schema. For a two-key list entry (doublekey[key1][key2]) every subset of the key leaves is made present in
// the tree; the JSON, JSON_IETF and XML renderings must carry both keys with the right values.

import (
	"context"
	"fmt"
	"strings"
	"testing"

	"github.com/beevik/etree"
	"github.com/sdcio/data-server/mocks/mockcacheclient"
	"github.com/sdcio/data-server/pkg/cache"
	"github.com/sdcio/data-server/pkg/utils/testhelper"
	sdcpb "github.com/sdcio/sdc-protos/sdcpb"
	"go.uber.org/mock/gomock"
	"google.golang.org/protobuf/proto"
)

func vrStrUpd(path []string, val string, owner string) *cache.Update {
	b, _ := proto.Marshal(&sdcpb.TypedValue{Value: &sdcpb.TypedValue_StringVal{StringVal: val}})
	return cache.NewUpdate(path, b, 5, owner, 0)
}

func TestVerifReplayRender(t *testing.T) {
	fnJ, fnX := "tree.jsonAddKeyElements", "tree.xmlAddKeyElements"
	n := 0
	for mask := 0; mask < 4; mask++ {
		for _, onlyNew := range []bool{false, true} {
			n++
			ctx := context.Background()
			mockCtrl := gomock.NewController(t)
			scb, err := testhelper.GetSchemaClientBound(t, mockCtrl)
			if err != nil {
				t.Fatal(err)
			}
			cacheClient := mockcacheclient.NewMockClient(mockCtrl)
			testhelper.ConfigureCacheClientMock(t, cacheClient, []*cache.Update{}, []*cache.Update{}, []*cache.Update{}, [][]string{})
			tc := NewTreeContext(NewTreeCacheClient("dev1", cacheClient), scb, "owner1")
			root, err := NewTreeRoot(ctx, tc)
			if err != nil {
				t.Fatal(err)
			}
			flagsNew := NewUpdateInsertFlags()
			flagsNew.SetNewFlag()
			base := []string{"doublekey", "k1.1", "k1.2"}
			var upds []*cache.Update
			if mask&1 != 0 {
				upds = append(upds, vrStrUpd(append(append([]string{}, base...), "key1"), "k1.1", "owner1"))
			}
			if mask&2 != 0 {
				upds = append(upds, vrStrUpd(append(append([]string{}, base...), "key2"), "k1.2", "owner1"))
			}
			upds = append(upds, vrStrUpd(append(append([]string{}, base...), "mandato"), "TheMandatoryValue1", "owner1"))
			for _, u := range upds {
				if _, err := root.AddCacheUpdateRecursive(ctx, u, flagsNew); err != nil {
					t.Fatal(err)
				}
			}
			root.FinishInsertionPhase(ctx)
			in := fmt.Sprintf("entry=doublekey[key1=k1.1][key2=k1.2],key1LeafPresent=%v,key2LeafPresent=%v,onlyNewOrUpdated=%v", mask&1 != 0, mask&2 != 0, onlyNew)
			checkJSON := func(name string, js any, e error) {
				if e != nil {
					fmt.Printf("REPLAY-FAIL fn=%s clause=panic input=%s why=%s error %v\n", fnJ, in, name, e)
					return
				}
				m, _ := js.(map[string]any)
				var lst []any
				for k, v := range m {
					if k == "doublekey" || strings.HasSuffix(k, ":doublekey") {
						lst, _ = v.([]any)
					}
				}
				if len(lst) != 1 {
					fmt.Printf("REPLAY-FAIL fn=%s clause=all_keys_present input=%s why=%s: %d doublekey entries in %v\n", fnJ, in, name, len(lst), js)
					return
				}
				ent, _ := lst[0].(map[string]any)
				for key, want := range map[string]string{"key1": "k1.1", "key2": "k1.2"} {
					got, ok := ent[key]
					if !ok {
						fmt.Printf("REPLAY-FAIL fn=%s clause=all_keys_present input=%s why=%s: key %s missing in %v\n", fnJ, in, name, key, ent)
					} else if fmt.Sprint(got) != want {
						fmt.Printf("REPLAY-FAIL fn=%s clause=added_keys_carry_their_level_name input=%s why=%s: %s=%v, want %s\n", fnJ, in, name, key, got, want)
					}
				}
			}
			js, e := root.ToJson(onlyNew)
			checkJSON("json", js, e)
			jsi, e := root.ToJsonIETF(onlyNew)
			checkJSON("json_ietf", jsi, e)
			for opt := 0; opt < 8; opt++ {
				doc, e := root.ToXML(onlyNew, opt&1 != 0, opt&2 != 0, opt&4 != 0)
				if e != nil {
					fmt.Printf("REPLAY-FAIL fn=%s clause=panic input=%s why=xml error %v\n", fnX, in, e)
					continue
				}
				var ent *etree.Element
				for _, c := range doc.ChildElements() {
					if c.Tag == "doublekey" {
						ent = c
					}
				}
				if ent == nil {
					fmt.Printf("REPLAY-FAIL fn=%s clause=keys_complete input=%s,xmlopts=%d why=no doublekey element\n", fnX, in, opt)
					continue
				}
				for key, want := range map[string]string{"key1": "k1.1", "key2": "k1.2"} {
					ke := ent.SelectElement(key)
					if ke == nil {
						fmt.Printf("REPLAY-FAIL fn=%s clause=keys_complete input=%s,xmlopts=%d why=key element %s missing\n", fnX, in, opt, key)
					} else if ke.Text() != want {
						fmt.Printf("REPLAY-FAIL fn=%s clause=keys_complete input=%s,xmlopts=%d why=<%s>%s</%s>, want %s\n", fnX, in, opt, key, ke.Text(), key, want)
					}
				}
			}
		}
	}
	fmt.Printf("REPLAY-CASES fn=%s n=%d\n", fnJ, 2*n)
	fmt.Printf("REPLAY-CASES fn=%s n=%d\n", fnX, 8*n)
}

// namespaceIsEqual on hand-built entry chains: list (namespace A) -> key level, list (namespace B) -> key level
func TestVerifReplayNamespace(t *testing.T) {
	fn := "tree.namespaceIsEqual"
	mk := func(ns string) (list, key *sharedEntryAttributes) {
		root := &sharedEntryAttributes{pathElemName: ""}
		list = &sharedEntryAttributes{parent: root, pathElemName: "l" + ns, schema: &sdcpb.SchemaElem{Schema: &sdcpb.SchemaElem_Container{Container: &sdcpb.ContainerSchema{Name: "l" + ns, Namespace: "urn:" + ns}}}}
		key = &sharedEntryAttributes{parent: list, pathElemName: "k"}
		return
	}
	n := 0
	for _, nsA := range []string{"A", "B"} {
		for _, nsB := range []string{"A", "B"} {
			la, ka := mk(nsA)
			lb, kb := mk(nsB)
			for ai, a := range []*sharedEntryAttributes{la, ka} {
				for bi, b := range []*sharedEntryAttributes{lb, kb} {
					n++
					var got bool
					pan := func() (p any) {
						defer func() { p = recover() }()
						got = namespaceIsEqual(a, b)
						return nil
					}()
					want := nsA == nsB
					if pan != nil {
						fmt.Printf("REPLAY-FAIL fn=%s clause=compares_own_namespaces input=a=%s(ns %s,keyLevel=%v),b=%s(ns %s,keyLevel=%v) why=panic %v\n", fn, a.pathElemName, nsA, ai == 1, b.pathElemName, nsB, bi == 1, pan)
						continue
					}
					if got != want {
						fmt.Printf("REPLAY-FAIL fn=%s clause=compares_own_namespaces input=a=%s(ns %s,keyLevel=%v),b=%s(ns %s,keyLevel=%v) why=result %v\n", fn, a.pathElemName, nsA, ai == 1, b.pathElemName, nsB, bi == 1, got)
					}
				}
			}
		}
	}
	fmt.Printf("REPLAY-CASES fn=%s n=%d\n", fn, n)
}
