package datastore

// Bounded stand-in (injected via `go test -overlay`) for C15: one deviation cycle of the real runDeviationUpdate over a
// mocked cache (running store + intended store) and a recording stream, compared with the property's definition:
// START first, END last; UNHANDLED for a running path no intent defines; NOT_APPLIED for the ruling intent whose value
// differs from running or is missing there; OVERRULED for every lower-precedence intent whose value differs from the
// ruling one; nothing for paths on which running and all intents agree.

import (
	"context"
	"fmt"
	"sort"
	"strings"
	"sync"
	"testing"
	"time"

	"github.com/sdcio/cache/proto/cachepb"
	"github.com/sdcio/data-server/mocks/mockcacheclient"
	"github.com/sdcio/data-server/pkg/cache"
	"github.com/sdcio/data-server/pkg/config"
	schemaClient "github.com/sdcio/data-server/pkg/datastore/clients/schema"
	"github.com/sdcio/data-server/pkg/utils"
	"github.com/sdcio/data-server/pkg/utils/testhelper"
	sdcpb "github.com/sdcio/sdc-protos/sdcpb"
	"go.uber.org/mock/gomock"
	"google.golang.org/grpc"
	"google.golang.org/protobuf/proto"
)

type vrdStream struct {
	grpc.ServerStream
	msgs   []*sdcpb.WatchDeviationResponse
	broken bool // a watcher whose connection is gone: every Send fails
}

func (s *vrdStream) Send(m *sdcpb.WatchDeviationResponse) error {
	if s.broken {
		return fmt.Errorf("transport is closing")
	}
	s.msgs = append(s.msgs, m)
	return nil
}
func (s *vrdStream) Context() context.Context { return context.Background() }

type vrdIntent struct {
	owner string
	prio  int32
	val   string
}

func vrdBytes(v string) []byte {
	tv := &sdcpb.TypedValue{Value: &sdcpb.TypedValue_StringVal{StringVal: strings.TrimPrefix(v, "s:")}}
	if strings.HasPrefix(v, "u:") {
		var n uint64
		fmt.Sscanf(v[2:], "%d", &n)
		tv = &sdcpb.TypedValue{Value: &sdcpb.TypedValue_UintVal{UintVal: n}}
	}
	if strings.HasPrefix(v, "i:") {
		var n int64
		fmt.Sscanf(v[2:], "%d", &n)
		tv = &sdcpb.TypedValue{Value: &sdcpb.TypedValue_IntVal{IntVal: n}}
	}
	if strings.HasPrefix(v, "l:") {
		// a leaf-list: l:a,b,c
		var el []*sdcpb.TypedValue
		for _, e := range strings.Split(v[2:], ",") {
			el = append(el, &sdcpb.TypedValue{Value: &sdcpb.TypedValue_StringVal{StringVal: e}})
		}
		tv = &sdcpb.TypedValue{Value: &sdcpb.TypedValue_LeaflistVal{LeaflistVal: &sdcpb.ScalarArray{Element: el}}}
	}
	b, _ := proto.Marshal(tv)
	return b
}

// the datum a stored value denotes (a uint leaf may be stored as a string by older writers)
func vrdDatum(v string) string {
	if strings.HasPrefix(v, "l:") {
		// the leaf-list of the test schema is ordered by the system: its entries have no order of their own
		el := strings.Split(v[2:], ",")
		sort.Strings(el)
		return strings.Join(el, ",")
	}
	return strings.TrimPrefix(strings.TrimPrefix(strings.TrimPrefix(v, "s:"), "u:"), "i:")
}

func vrdTvString(tv *sdcpb.TypedValue) string {
	if tv == nil {
		return ""
	}
	if ll := tv.GetLeaflistVal(); ll != nil {
		var el []string
		for _, e := range ll.GetElement() {
			el = append(el, utils.TypedValueToString(e))
		}
		sort.Strings(el)
		return strings.Join(el, ",")
	}
	return utils.TypedValueToString(tv)
}

func TestVerifReplayDeviations(t *testing.T) {
	fn := "(*datastore.Datastore).runDeviationUpdate"
	n := 0
	type vrdLeaf struct {
		path     []string
		xpath    string
		runnings []string
		sets     [][]vrdIntent
	}
	leaves := []vrdLeaf{
		{[]string{"interface", "ethernet-1/1", "description"}, "interface[name=ethernet-1/1]/description", []string{"", "a", "b"}, [][]vrdIntent{
			nil,
			{{"i1", 10, "a"}},
			{{"i1", 10, "b"}},
			{{"i1", 10, "a"}, {"i2", 20, "a"}},
			{{"i1", 10, "a"}, {"i2", 20, "b"}},
			{{"i2", 20, "b"}, {"i1", 10, "a"}},
			{{"i1", 10, "a"}, {"i2", 20, "b"}, {"i3", 30, "a"}},
			{{"i1", 10, "b"}, {"i2", 20, "a"}, {"i3", 30, "c"}},
			// the order in which the store hands the intents of a path out is the order they were written in
			{{"i1", 10, "a"}, {"i3", 30, "c"}, {"i2", 20, "b"}},
			{{"i3", 30, "c"}, {"i1", 10, "a"}, {"i2", 20, "b"}},
			{{"i2", 20, "b"}, {"i3", 30, "c"}, {"i1", 10, "a"}},
			{{"i3", 30, "a"}, {"i2", 20, "a"}, {"i1", 10, "b"}},
			{{"i1", 10, "a"}, {"i3", 30, "a"}, {"i2", 20, "b"}, {"i4", 40, "b"}},
		}},
		// a uint32 leaf whose intents are stored partly as strings: values are compared after normalisation
		{[]string{"rangetestunsigned"}, "rangetestunsigned", []string{"u:20", "s:20", "i:20"}, [][]vrdIntent{
			{{"i1", 5, "i:20"}, {"i2", 10, "u:20"}},
			{{"i1", 5, "u:20"}, {"i2", 10, "i:30"}},
			{{"i1", 5, "u:20"}, {"i2", 10, "s:20"}},
			{{"i1", 5, "u:20"}, {"i2", 10, "s:30"}},
			{{"i1", 5, "s:20"}},
			{{"i1", 5, "s:30"}, {"i2", 10, "u:30"}},
		}},
		// a leaf-list: the same entries are the same value, one entry more on either side is a deviation
		{[]string{"leaflist", "entry"}, "leaflist/entry", []string{"l:a,b", "l:a,b,c", "l:b,a"}, [][]vrdIntent{
			{{"i1", 10, "l:a,b"}},
			{{"i1", 10, "l:a,b,c"}},
			{{"i1", 10, "l:a,b"}, {"i2", 20, "l:a,b,c"}},
			{{"i1", 10, "l:a,b,c"}, {"i2", 20, "l:a,b"}},
			{{"i1", 10, "l:a,b"}, {"i2", 10, "l:a,b,c"}},
			{{"i1", 10, "l:a,b"}, {"i2", 20, "l:b,a"}},
			{{"i1", 10, "l:a,a,b"}, {"i2", 20, "l:a,b,b"}},
		}},
	}
	for _, keysFail := range []bool{false, true} {
		for _, leaf := range leaves {
			path, xpath := leaf.path, leaf.xpath
			for _, running := range leaf.runnings {
				for _, intents := range leaf.sets {
					if running == "" && len(intents) == 0 {
						continue
					}
					if keysFail && (running != "a" || len(intents) > 1) {
						continue
					}
					_ = xpath
					n++
					ctrl := gomock.NewController(t)
					cc := mockcacheclient.NewMockClient(ctrl)
					var runUpds, intUpds []*cache.Update
					if running != "" {
						runUpds = append(runUpds, cache.NewUpdate(path, vrdBytes(running), 0, "running", 0))
					}
					for i, in := range intents {
						intUpds = append(intUpds, cache.NewUpdate(path, vrdBytes(in.val), in.prio, in.owner, int64(i)))
					}
					cc.EXPECT().ReadCh(gomock.Any(), gomock.Any(), gomock.Any(), gomock.Any(), gomock.Any()).AnyTimes().DoAndReturn(
						func(_ context.Context, _ string, opts *cache.Opts, _ [][]string, _ time.Duration) chan *cache.Update {
							ch := make(chan *cache.Update, 10)
							if opts.Store == cachepb.Store_CONFIG {
								for _, u := range runUpds {
									ch <- u
								}
							}
							close(ch)
							return ch
						})
					cc.EXPECT().Read(gomock.Any(), gomock.Any(), gomock.Any(), gomock.Any(), gomock.Any()).AnyTimes().DoAndReturn(
						func(_ context.Context, _ string, opts *cache.Opts, paths [][]string, _ time.Duration) []*cache.Update {
							if opts.Store == cachepb.Store_INTENDED && len(paths) == 1 && strings.Join(paths[0], "\x00") == strings.Join(path, "\x00") {
								// the read semantics of the cache: with priority 0 the entries of the best max(1, PriorityCount)
								// distinct priorities of the path, whoever owns them; otherwise the owner's entry at that priority
								var out []*cache.Update
								if opts.Priority > 0 {
									for _, u := range intUpds {
										if u.Owner() == opts.Owner && u.Priority() == opts.Priority {
											out = append(out, u)
										}
									}
									return out
								}
								count := int(opts.PriorityCount)
								if count < 1 {
									count = 1
								}
								prios := map[int32]bool{}
								for _, u := range intUpds {
									prios[u.Priority()] = true
								}
								var ps []int32
								for p := range prios {
									ps = append(ps, p)
								}
								sort.Slice(ps, func(i, j int) bool { return ps[i] < ps[j] })
								if len(ps) > count {
									ps = ps[:count]
								}
								for _, u := range intUpds {
									for _, p := range ps {
										if u.Priority() == p {
											out = append(out, u)
										}
									}
								}
								return out
							}
							return nil
						})
					cc.EXPECT().GetKeys(gomock.Any(), gomock.Any(), gomock.Any()).AnyTimes().DoAndReturn(
						func(_ context.Context, _ string, store cachepb.Store) (chan *cache.Update, error) {
							if keysFail {
								return nil, fmt.Errorf("cache unavailable")
							}
							ch := make(chan *cache.Update, 10)
							if store == cachepb.Store_INTENDED {
								for _, u := range intUpds {
									ch <- u
								}
							}
							close(ch)
							return ch, nil
						})
					scl, schema, err := testhelper.InitSDCIOSchema()
					if err != nil {
						t.Fatal(err)
					}
					d := &Datastore{
						config:       &config.DatastoreConfig{Name: "dev1", Schema: schema},
						cacheClient:  cc,
						schemaClient: schemaClient.NewSchemaClientBound(schema.GetSchema(), scl),
						m:            &sync.RWMutex{},
						md:           &sync.RWMutex{},
					}
					st := &vrdStream{}
					in := fmt.Sprintf("path=%s,running=%q,intents=%v,intendedKeysReadFails=%v", xpath, running, intents, keysFail)
					watchers := map[string]sdcpb.DataServer_WatchDeviationsServer{"c1": st, "gone": &vrdStream{broken: true}}
					for _, wn := range []string{"c2", "c3", "c4", "c5", "c6"} {
						watchers[wn] = &vrdStream{}
					}
					func() {
						defer func() {
							if r := recover(); r != nil {
								fmt.Printf("REPLAY-FAIL fn=%s clause=panic input=%s panic=%v\n", fn, in, r)
							}
						}()
						d.runDeviationUpdate(context.Background(), watchers)
					}()
					// every healthy watcher gets the whole cycle, whatever happens to the others
					for name, w := range watchers {
						if ws := w.(*vrdStream); !ws.broken && len(ws.msgs) != len(st.msgs) {
							fmt.Printf("REPLAY-FAIL fn=%s clause=every_watcher_gets_the_cycle input=%s,watchers=6 healthy + 1 whose Send fails why=watcher %s got %d messages, watcher c1 got %d\n", fn, in, name, len(ws.msgs), len(st.msgs))
							break
						}
					}
					// expected report
					var want []string
					sorted := append([]vrdIntent{}, intents...)
					sort.SliceStable(sorted, func(i, j int) bool { return sorted[i].prio < sorted[j].prio })
					switch {
					case len(sorted) == 0:
						want = append(want, fmt.Sprintf("UNHANDLED intent= current=%q expected=%q", vrdDatum(running), ""))
					default:
						if vrdDatum(sorted[0].val) != vrdDatum(running) {
							want = append(want, fmt.Sprintf("NOT_APPLIED intent=%s current=%q expected=%q", sorted[0].owner, vrdDatum(running), vrdDatum(sorted[0].val)))
						}
						for _, o := range sorted[1:] {
							if vrdDatum(o.val) != vrdDatum(sorted[0].val) {
								want = append(want, fmt.Sprintf("OVERRULED intent=%s", o.owner))
							}
						}
					}
					var got []string
					bracket := len(st.msgs) >= 2 && st.msgs[0].GetEvent() == sdcpb.DeviationEvent_START && st.msgs[len(st.msgs)-1].GetEvent() == sdcpb.DeviationEvent_END
					if !bracket {
						fmt.Printf("REPLAY-FAIL fn=%s clause=bracketed_by_start_and_end input=%s why=%d messages, first/last are not START/END\n", fn, in, len(st.msgs))
					}
					for _, m := range st.msgs {
						if m.GetEvent() != sdcpb.DeviationEvent_UPDATE {
							continue
						}
						if utils.ToXPath(m.GetPath(), false) != xpath {
							got = append(got, fmt.Sprintf("%s for path %q", m.GetReason(), utils.ToXPath(m.GetPath(), false)))
							continue
						}
						switch m.GetReason() {
						case sdcpb.DeviationReason_UNHANDLED:
							got = append(got, fmt.Sprintf("UNHANDLED intent= current=%q expected=%q", vrdTvString(m.GetCurrentValue()), vrdTvString(m.GetExpectedValue())))
						case sdcpb.DeviationReason_NOT_APPLIED:
							got = append(got, fmt.Sprintf("NOT_APPLIED intent=%s current=%q expected=%q", m.GetIntent(), vrdTvString(m.GetCurrentValue()), vrdTvString(m.GetExpectedValue())))
						case sdcpb.DeviationReason_OVERRULED:
							got = append(got, fmt.Sprintf("OVERRULED intent=%s", m.GetIntent()))
						default:
							got = append(got, m.GetReason().String())
						}
					}
					sort.Strings(want)
					sort.Strings(got)
					if strings.Join(want, "; ") != strings.Join(got, "; ") {
						clause := "reports_exactly_the_deviations"
						if running == "" {
							clause += ".known" // recorded finding: paths missing in running are reported once per intent, without values
						}
						fmt.Printf("REPLAY-FAIL fn=%s clause=%s input=%s why=reported [%s], the deviations are [%s]\n", fn, clause, in, strings.Join(got, "; "), strings.Join(want, "; "))
					}
				}
			}
		}
	}
	// two paths whose elements joined with "/" read the same: key values may hold any character. The one that is missing
	// in running must not pass for the one that is there.
	{
		n++
		p1 := []string{"doublekey", "a/b", "c", "mandato"}
		p2 := []string{"doublekey", "a", "b/c", "mandato"}
		ctrl := gomock.NewController(t)
		cc := mockcacheclient.NewMockClient(ctrl)
		run := cache.NewUpdate(p1, vrdBytes("x"), 0, "running", 0)
		iA := cache.NewUpdate(p1, vrdBytes("x"), 10, "A", 0)
		iB := cache.NewUpdate(p2, vrdBytes("y"), 10, "B", 1)
		cc.EXPECT().ReadCh(gomock.Any(), gomock.Any(), gomock.Any(), gomock.Any(), gomock.Any()).AnyTimes().DoAndReturn(
			func(_ context.Context, _ string, opts *cache.Opts, _ [][]string, _ time.Duration) chan *cache.Update {
				ch := make(chan *cache.Update, 2)
				if opts.Store == cachepb.Store_CONFIG {
					ch <- run
				}
				close(ch)
				return ch
			})
		cc.EXPECT().Read(gomock.Any(), gomock.Any(), gomock.Any(), gomock.Any(), gomock.Any()).AnyTimes().DoAndReturn(
			func(_ context.Context, _ string, opts *cache.Opts, paths [][]string, _ time.Duration) []*cache.Update {
				if opts.Store == cachepb.Store_INTENDED && len(paths) == 1 {
					switch strings.Join(paths[0], "\x00") {
					case strings.Join(p1, "\x00"):
						return []*cache.Update{iA}
					case strings.Join(p2, "\x00"):
						return []*cache.Update{iB}
					}
				}
				return nil
			})
		cc.EXPECT().GetKeys(gomock.Any(), gomock.Any(), gomock.Any()).AnyTimes().DoAndReturn(
			func(_ context.Context, _ string, store cachepb.Store) (chan *cache.Update, error) {
				ch := make(chan *cache.Update, 2)
				if store == cachepb.Store_INTENDED {
					ch <- iA
					ch <- iB
				}
				close(ch)
				return ch, nil
			})
		scl, schema, err := testhelper.InitSDCIOSchema()
		if err != nil {
			t.Fatal(err)
		}
		d := &Datastore{config: &config.DatastoreConfig{Name: "dev1", Schema: schema}, cacheClient: cc,
			schemaClient: schemaClient.NewSchemaClientBound(schema.GetSchema(), scl), m: &sync.RWMutex{}, md: &sync.RWMutex{}}
		st := &vrdStream{}
		d.runDeviationUpdate(context.Background(), map[string]sdcpb.DataServer_WatchDeviationsServer{"c1": st})
		reportedB := false
		var got []string
		for _, m := range st.msgs {
			if m.GetEvent() == sdcpb.DeviationEvent_UPDATE {
				got = append(got, fmt.Sprintf("%s intent=%s path=%s", m.GetReason(), m.GetIntent(), utils.ToXPath(m.GetPath(), false)))
				reportedB = reportedB || m.GetIntent() == "B"
			}
		}
		if !reportedB || len(got) != 1 {
			fmt.Printf("REPLAY-FAIL fn=%s clause=reports_exactly_the_deviations input=running=doublekey[key1=a/b][key2=c]/mandato (held by intent A),intent B holds doublekey[key1=a][key2=b/c]/mandato which running lacks why=reported %v, the deviation is NOT_APPLIED for intent B\n", fn, got)
		}
		ctrl.Finish()
	}
	// the store answers a read with everything at or below the path: a presence container in running must not be judged
	// by the intents of the leaves below it
	{
		n++
		pc := []string{"choices", "case1"}
		pl := []string{"choices", "case1", "log"}
		ev, _ := proto.Marshal(&sdcpb.TypedValue{Value: &sdcpb.TypedValue_EmptyVal{}})
		bv, _ := proto.Marshal(&sdcpb.TypedValue{Value: &sdcpb.TypedValue_BoolVal{BoolVal: true}})
		ctrl := gomock.NewController(t)
		cc := mockcacheclient.NewMockClient(ctrl)
		runC := cache.NewUpdate(pc, ev, 0, "running", 0)
		runL := cache.NewUpdate(pl, bv, 0, "running", 0)
		iL := cache.NewUpdate(pl, bv, 10, "a", 0)
		cc.EXPECT().ReadCh(gomock.Any(), gomock.Any(), gomock.Any(), gomock.Any(), gomock.Any()).AnyTimes().DoAndReturn(
			func(_ context.Context, _ string, opts *cache.Opts, _ [][]string, _ time.Duration) chan *cache.Update {
				ch := make(chan *cache.Update, 2)
				if opts.Store == cachepb.Store_CONFIG {
					ch <- runC
					ch <- runL
				}
				close(ch)
				return ch
			})
		cc.EXPECT().Read(gomock.Any(), gomock.Any(), gomock.Any(), gomock.Any(), gomock.Any()).AnyTimes().DoAndReturn(
			func(_ context.Context, _ string, opts *cache.Opts, paths [][]string, _ time.Duration) []*cache.Update {
				// by prefix, like the cache
				if opts.Store == cachepb.Store_INTENDED && len(paths) == 1 && len(paths[0]) <= len(pl) && strings.Join(pl[:len(paths[0])], "\x00") == strings.Join(paths[0], "\x00") {
					return []*cache.Update{iL}
				}
				return nil
			})
		cc.EXPECT().GetKeys(gomock.Any(), gomock.Any(), gomock.Any()).AnyTimes().DoAndReturn(
			func(_ context.Context, _ string, store cachepb.Store) (chan *cache.Update, error) {
				ch := make(chan *cache.Update, 1)
				if store == cachepb.Store_INTENDED {
					ch <- iL
				}
				close(ch)
				return ch, nil
			})
		scl, schema, err := testhelper.InitSDCIOSchema()
		if err != nil {
			t.Fatal(err)
		}
		d := &Datastore{config: &config.DatastoreConfig{Name: "dev1", Schema: schema}, cacheClient: cc,
			schemaClient: schemaClient.NewSchemaClientBound(schema.GetSchema(), scl), m: &sync.RWMutex{}, md: &sync.RWMutex{}}
		st := &vrdStream{}
		d.runDeviationUpdate(context.Background(), map[string]sdcpb.DataServer_WatchDeviationsServer{"c1": st})
		var got []string
		for _, m := range st.msgs {
			if m.GetEvent() == sdcpb.DeviationEvent_UPDATE {
				got = append(got, fmt.Sprintf("%s intent=%s path=%s", m.GetReason(), m.GetIntent(), utils.ToXPath(m.GetPath(), false)))
			}
		}
		sort.Strings(got)
		if strings.Join(got, "; ") != "UNHANDLED intent=running path=choices/case1" {
			for _, f := range []string{fn, "datastore.updatesAtPath"} {
				fmt.Printf("REPLAY-FAIL fn=%s clause=reports_exactly_the_deviations input=running=choices/case1 (presence container) and choices/case1/log=true,intent a@10 holds choices/case1/log=true why=reported %v, the deviation is UNHANDLED for the container no intent defines\n", f, got)
			}
		}
		ctrl.Finish()
	}
	fmt.Printf("REPLAY-CASES fn=%s n=%d\n", fn, n)
}
