package schemaClient

// Replay adapter (injected via `go test -overlay`): executable contract of SchemaClientBoundImpl.Retrieve (C07):
// a failure of the schema service is not memoised, a success is, a memo hit asks nobody.

import (
	"context"
	"errors"
	"fmt"
	"testing"

	"github.com/sdcio/data-server/mocks/mockschema"
	sdcpb "github.com/sdcio/sdc-protos/sdcpb"
	"go.uber.org/mock/gomock"
)

func TestVerifReplayRetrieve(t *testing.T) {
	fn := "(*datastore/clients/schema.SchemaClientBoundImpl).Retrieve"
	n := 0
	for _, script := range [][]bool{{false, true}, {true, true}, {false, false, true}, {true, false}} {
		n++
		ctrl := gomock.NewController(t)
		sc := mockschema.NewMockClient(ctrl)
		calls := 0
		sc.EXPECT().GetSchema(gomock.Any(), gomock.Any(), gomock.Any()).AnyTimes().DoAndReturn(
			func(ctx context.Context, in *sdcpb.GetSchemaRequest, opts ...any) (*sdcpb.GetSchemaResponse, error) {
				ok := true
				if calls < len(script) {
					ok = script[calls]
				}
				calls++
				if !ok {
					return nil, errors.New("schema server unavailable")
				}
				return &sdcpb.GetSchemaResponse{Schema: &sdcpb.SchemaElem{}}, nil
			})
		scb := NewSchemaClientBound(&sdcpb.Schema{Name: "s", Vendor: "v", Version: "1"}, sc)
		path := &sdcpb.Path{Elem: []*sdcpb.PathElem{{Name: "interface"}}}
		in := fmt.Sprintf("schema-server replies (true=ok) %v, same path requested %d times", script, len(script)+1)
		for i := 0; i <= len(script); i++ {
			before := calls
			rsp, err := scb.Retrieve(context.Background(), path)
			asked := calls > before
			wantOK := true
			if before < len(script) {
				wantOK = script[before]
			}
			if i > 0 && !asked {
				// memo hit: only legitimate if an earlier request succeeded
				hadSuccess := false
				for j := 0; j < before && j < len(script); j++ {
					if script[j] {
						hadSuccess = true
					}
				}
				if !hadSuccess {
					fmt.Printf("REPLAY-FAIL fn=%s clause=errors_not_memoised input=%s why=request %d answered from the memo (err=%v) although every earlier lookup failed\n", fn, in, i+1, err)
					break
				}
				if err != nil || rsp == nil {
					fmt.Printf("REPLAY-FAIL fn=%s clause=success_memoised input=%s why=memo hit returned err=%v\n", fn, in, err)
				}
				continue
			}
			if asked && (err == nil) != wantOK {
				fmt.Printf("REPLAY-FAIL fn=%s clause=success_memoised input=%s why=request %d: err=%v, schema server ok=%v\n", fn, in, i+1, err, wantOK)
			}
		}
	}
	fmt.Printf("REPLAY-CASES fn=%s n=%d\n", fn, n)
}
