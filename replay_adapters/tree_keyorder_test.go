package tree

// Replay adapter / bounded stand-in (injected via `go test -overlay`) for the round trips of C11 with the real
// SchemaClientBoundImpl: request path -> element sequence (utils.ToStrings) -> path (ToPath), and request path ->
// position in the merge tree -> path (SdcpbPath), for one-key and two-key lists. The two-key list is taken once as
// declared in the test schema (key "key1 key2", alphabetical) and once with the key statement reversed
// (key "key2 key1": the schema client below swaps the Keys of the schema response, which is what the schema server
// returns for such a list: it keeps the order of the key statement).

import (
	"context"
	"fmt"
	"testing"

	"github.com/sdcio/data-server/mocks/mockcacheclient"
	"github.com/sdcio/data-server/pkg/cache"
	schemaClient "github.com/sdcio/data-server/pkg/datastore/clients/schema"
	dataschema "github.com/sdcio/data-server/pkg/schema"
	"github.com/sdcio/data-server/pkg/utils"
	"github.com/sdcio/data-server/pkg/utils/testhelper"
	sdcpb "github.com/sdcio/sdc-protos/sdcpb"
	"go.uber.org/mock/gomock"
	"google.golang.org/grpc"
	"google.golang.org/protobuf/proto"
)

type vrkReversedKeys struct {
	dataschema.Client
	reverse bool
}

func (c *vrkReversedKeys) GetSchema(ctx context.Context, in *sdcpb.GetSchemaRequest, opts ...grpc.CallOption) (*sdcpb.GetSchemaResponse, error) {
	rsp, err := c.Client.GetSchema(ctx, in, opts...)
	if err != nil || !c.reverse {
		return rsp, err
	}
	if cont := rsp.GetSchema().GetContainer(); cont != nil && cont.GetName() == "doublekey" && len(cont.GetKeys()) == 2 {
		rsp = proto.Clone(rsp).(*sdcpb.GetSchemaResponse)
		k := rsp.GetSchema().GetContainer().Keys
		k[0], k[1] = k[1], k[0]
	}
	return rsp, nil
}

func TestVerifReplayKeyOrder(t *testing.T) {
	fnT := "(*datastore/clients/schema.SchemaClientBoundImpl).ToPath"
	fnK := "(*tree.sharedEntryAttributes).getKeyName"
	ctx := context.Background()
	nT, nK := 0, 0
	for _, reversed := range []bool{false, true} {
		scl, schema, err := testhelper.InitSDCIOSchema()
		if err != nil {
			t.Fatal(err)
		}
		scb := schemaClient.NewSchemaClientBound(schema.GetSchema(), &vrkReversedKeys{Client: scl, reverse: reversed})
		suffix := ""
		if reversed {
			suffix = ".known" // recorded finding: key levels follow the sorted key names, names are assigned in key-statement order
		}
		var paths []*sdcpb.Path
		for _, k1 := range []string{"a", "b", "x_y"} {
			for _, k2 := range []string{"a", "c", "b/d"} {
				paths = append(paths, &sdcpb.Path{Elem: []*sdcpb.PathElem{{Name: "doublekey", Key: map[string]string{"key1": k1, "key2": k2}}, {Name: "mandato"}}})
			}
			paths = append(paths, &sdcpb.Path{Elem: []*sdcpb.PathElem{{Name: "interface", Key: map[string]string{"name": k1}}, {Name: "description"}}})
		}
		// request path -> element sequence -> path
		for _, p := range paths {
			nT++
			back, err := scb.ToPath(ctx, utils.ToStrings(p, false, false))
			in := fmt.Sprintf("path=%s,keyStatement=%s", utils.ToXPath(p, false), map[bool]string{false: "key1 key2", true: "key2 key1"}[reversed])
			if err != nil {
				fmt.Printf("REPLAY-FAIL fn=%s clause=panic input=%s why=%v\n", fnT, in, err)
				continue
			}
			if utils.ToXPath(back, false) != utils.ToXPath(p, false) {
				cl := "round_trip"
				if p.Elem[0].Name == "doublekey" {
					cl += suffix
				}
				fmt.Printf("REPLAY-FAIL fn=%s clause=%s input=%s why=ToPath(ToStrings(p)) = %s\n", fnT, cl, in, utils.ToXPath(back, false))
			}
		}
		// element sequences that end within the keys of a list: an error, never a panic
		for _, seq := range [][]string{{"doublekey", "a"}, {"interface", "x", "subinterface"}, {"doublekey"}, {"interface", "x", "subinterface", "1"}} {
			nT++
			func() {
				defer func() {
					if r := recover(); r != nil {
						fmt.Printf("REPLAY-FAIL fn=%s clause=panic input=elements=%q panic=%v\n", fnT, seq, r)
					}
				}()
				scb.ToPath(ctx, seq)
			}()
		}
		// request path -> tree position -> path
		mockCtrl := gomock.NewController(t)
		cacheClient := mockcacheclient.NewMockClient(mockCtrl)
		testhelper.ConfigureCacheClientMock(t, cacheClient, []*cache.Update{}, []*cache.Update{}, []*cache.Update{}, [][]string{})
		root, err := NewTreeRoot(ctx, NewTreeContext(NewTreeCacheClient("dev1", cacheClient), scb, "owner1"))
		if err != nil {
			t.Fatal(err)
		}
		flags := NewUpdateInsertFlags()
		flags.SetNewFlag()
		b, _ := proto.Marshal(&sdcpb.TypedValue{Value: &sdcpb.TypedValue_StringVal{StringVal: "v"}})
		for _, p := range paths {
			nK++
			e, err := root.AddCacheUpdateRecursive(ctx, cache.NewUpdate(utils.ToStrings(p, false, false), b, 5, "owner1", 0), flags)
			in := fmt.Sprintf("path=%s,keyStatement=%s", utils.ToXPath(p, false), map[bool]string{false: "key1 key2", true: "key2 key1"}[reversed])
			if err != nil {
				fmt.Printf("REPLAY-FAIL fn=%s clause=panic input=%s why=%v\n", fnK, in, err)
				continue
			}
			back, err := e.SdcpbPath()
			if err != nil {
				fmt.Printf("REPLAY-FAIL fn=%s clause=panic input=%s why=%v\n", fnK, in, err)
				continue
			}
			if utils.ToXPath(back, false) != utils.ToXPath(p, false) {
				cl := "level_is_named_by_its_key"
				if p.Elem[0].Name == "doublekey" {
					cl += suffix
				}
				fmt.Printf("REPLAY-FAIL fn=%s clause=%s input=%s why=the entry inserted for this path reports the path %s\n", fnK, cl, in, utils.ToXPath(back, false))
			}
		}
	}
	fmt.Printf("REPLAY-CASES fn=%s n=%d\n", fnT, nT)
	fmt.Printf("REPLAY-CASES fn=%s n=%d\n", fnK, nK)
}
