package types

// Replay adapter (injected via `go test -overlay`): executable contract of ValidationResults.HasErrors / JoinErrors (C03).

import (
	"errors"
	"fmt"
	"testing"
)

func TestVerifReplayValidationResults(t *testing.T) {
	n := 0
	for intents := 0; intents <= 3; intents++ {
		for mask := 0; mask < 1<<(2*intents); mask++ {
			v := ValidationResults{}
			any := false
			desc := ""
			for i := 0; i < intents; i++ {
				name := fmt.Sprintf("intent%d", i)
				v.AddIntent(name)
				ne := (mask >> (2 * i)) & 3 // number of errors 0..3 (3 = one error + one warning)
				switch ne {
				case 1, 2:
					for k := 0; k < ne; k++ {
						v.AddEntry(NewValidationResultEntry(name, errors.New("bad value"), ValidationResultEntryTypeError))
					}
					any = true
				case 3:
					v.AddEntry(NewValidationResultEntry(name, errors.New("bad value"), ValidationResultEntryTypeError))
					v.AddEntry(NewValidationResultEntry(name, errors.New("odd value"), ValidationResultEntryTypeWarning))
					any = true
				}
				desc += fmt.Sprintf("%s:errors=%d ", name, ne)
			}
			n++
			if v.HasErrors() != any {
				fmt.Printf("REPLAY-FAIL fn=(types.ValidationResults).HasErrors clause=spec input=%s why=HasErrors=%v\n", desc, v.HasErrors())
			}
			je := v.JoinErrors()
			if any && je == nil {
				fmt.Printf("REPLAY-FAIL fn=(types.ValidationResults).JoinErrors clause=nonnil_if_errors input=%s why=JoinErrors()==nil although HasErrors()\n", desc)
			}
			if !any && je != nil {
				fmt.Printf("REPLAY-FAIL fn=(types.ValidationResults).JoinErrors clause=nil_if_none input=%s why=%v\n", desc, je)
			}
		}
	}
	fmt.Printf("REPLAY-CASES fn=(types.ValidationResults).HasErrors n=%d\n", n)
	fmt.Printf("REPLAY-CASES fn=(types.ValidationResults).JoinErrors n=%d\n", n)
}
