#!/usr/bin/env python3
"""Regenerates /verif/MANIFEST.json from tools/claims.json (claimed checks) and properties.jsonl."""
import json, subprocess, os
os.chdir(os.path.dirname(os.path.abspath(__file__)) + "/..")
props = [json.loads(l) for l in open("properties.jsonl")]
claims = json.load(open("tools/claims.json"))
baseline = json.load(open("/root/.vp/BASELINE.json"))["cmd"] if os.path.exists("/root/.vp/BASELINE.json") else json.load(open("MANIFEST.json"))["hooks"]["baseline_off_cmd"]
try:
    hook_commits = subprocess.check_output(["git", "-C", "/repo", "log", "--format=%H %s"], text=True).splitlines()
    hook_commits = [l.split()[0] for l in hook_commits if l.split(" ", 1)[1].startswith("verif:")]
except Exception:
    hook_commits = json.load(open("MANIFEST.json"))["hooks"].get("source_commits", [])
checks, na = [], []
for p in props:
    c = claims["claimed"].get(p["id"])
    if c:
        checks.append({
            "property_id": p["id"],
            "quick_cmd": f"./bin/gvc check -p {p['id']} -tier quick",
            "thorough_cmd": f"./bin/gvc check -p {p['id']} -tier thorough",
            "evidence_file": f"/verif/evidence/{p['id']}.json",
            "replay_cmd_template": "./bin/gvc replay {path}",
            "engine": "gvc",
            "level_claimed": {"category": "proof", "text": c["text"], "design_ref": c.get("design_ref", "DESIGN.md section 5")},
            "level_note": c["note"],
            "technique": c.get("technique", "contract-based deductive verification: go/ssa weakest-precondition VCs discharged by z3/cvc5"),
        })
    else:
        na.append({"property_id": p["id"], "reason": claims["not_applicable"].get(p["id"], "not claimed yet: contracts for this property are still being written (DESIGN.md section 5)")})
m = {
    "version": 1,
    "setup_cmd": "cd /verif && ./setup.sh",
    "hooks": {
        "guard": "verif",
        "enable": "go build -tags verif (only adds comment-only contract files pkg/**/zz_verif_contracts.go; gvc loads /repo with -tags=verif)",
        "baseline_off_cmd": baseline,
        "source_commits": hook_commits,
        "add_only": True,
    },
    "engines": [{"name": "gvc", "path": "/verif/cmd/gvc", "serves_properties": sorted(claims["claimed"].keys()),
                 "kind_free_text": "contract-based deductive verifier written for this task: contracts as //@ comments in /repo (build tag verif), go/ssa (x/tools v0.29.0) -> loop-cut passive VCs -> SMT-LIB, discharged by z3 5.1.0 / z3 4.8.12 / cvc5 1.0.3; counterexamples replayed on the real code by in-package tests injected with go test -overlay"}],
    "checks": checks,
    "not_applicable": na,
    "notes": "See DESIGN.md. Exit codes of every check: 0 = all claimed obligations discharged (known findings printed as KNOWN-FINDING), 1 = VIOLATION line(s), 2 = machinery failure (never on the unchanged tree).",
}
json.dump(m, open("MANIFEST.json", "w"), indent=1)
print("MANIFEST.json:", len(checks), "checks,", len(na), "not applicable")
