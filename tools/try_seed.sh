#!/bin/bash
# usage: try_seed.sh <seed dir> <prop> [<prop>...]   applies the patch to /repo, runs the quick checks, undoes it
seed=$1; shift
cd /repo || exit 2
git diff --quiet || { echo "/repo not clean"; exit 2; }
git apply "$seed/patch.diff" || exit 2
for p in "$@"; do
  (cd /verif && ./bin/gvc check -p $p -tier quick 2>&1 | grep -v "^KNOWN" | tail -6; echo "exit=${PIPESTATUS[0]}")
done
git checkout -- . ; git status --short | head -3
