#!/bin/bash
# runs every registered replay adapter / stand-in once on /repo's working tree and lists the failures that are not
# known findings (quick and thorough-only adapters alike). Use after every change of /repo sources or of an adapter.
export GOFLAGS=-mod=mod GOPROXY=off GOSUMDB=off GOTOOLCHAIN=local
cd /verif
rc=0
python3 - <<'PY' > /tmp/.adapters.$$
import json
seen=set()
for a in json.load(open('replay_adapters/registry.json')):
    k=(a['package_dir'],a['file'],a['test'])
    if k in seen: continue
    seen.add(k); print(*k)
PY
while read pkg file test; do
  ov=$(mktemp /tmp/ov.XXXXXX.json)
  echo "{\"Replace\":{\"/repo/$pkg/zz_verif_replay_test.go\":\"/verif/replay_adapters/$file\"}}" > $ov
  out=$(cd /repo && go test -overlay $ov -vet=off -count=1 -timeout 300s -run "^$test\$" -v ./$pkg 2>&1)
  rm -f $ov
  fails=$(echo "$out" | grep "^REPLAY-FAIL" | grep -v "\.known" | wc -l)
  cases=$(echo "$out" | grep -c "^REPLAY-CASES")
  if [ "$fails" != "0" ] || [ "$cases" = "0" ]; then
    rc=1; echo "ADAPTER $file:$test failures=$fails case-lines=$cases"
    echo "$out" | grep "^REPLAY-FAIL" | grep -v "\.known" | cut -c1-300 | head -3
    [ "$cases" = "0" ] && echo "$out" | tail -5
  else
    echo "ok      $file:$test"
  fi
done < /tmp/.adapters.$$
rm -f /tmp/.adapters.$$
exit $rc
