#!/bin/bash
# usage: confirm_seed.sh <worktree> <seed dir> <demo repo-relative path> <demo pkg>
# Confirms in a scratch worktree: builds, suite passes with the change, demo fails with it and passes without it.
set -u
export GOFLAGS=-mod=mod GOPROXY=off GOSUMDB=off GOTOOLCHAIN=local
wt=$1; seed=$2; demo=$3; pkg=$4
cd "$wt" || exit 2
git checkout -q -- . 2>/dev/null; find . -name 'zz_verif_contracts.go' -delete; rm -f "$demo"
git apply "$seed/patch.diff" || { echo "patch does not apply"; exit 2; }
go build ./... && echo "BUILD ok" || echo "BUILD FAILED"
go test -vet=off -count=1 ./... 2>&1 | grep -v "no test files" | grep -v "^ok" | head -5; echo "SUITE done (lines above = failures)"
cp "$seed/zz_demo_test.go" "$demo"
go test -vet=off -count=1 -run 'Demo' "$pkg" > /tmp/demo_with.txt 2>&1; echo "DEMO with change: exit $?"; grep -E "^(--- FAIL|FAIL|ok|PASS)" /tmp/demo_with.txt | head -5
git apply -R "$seed/patch.diff"
go test -vet=off -count=1 -run 'Demo' "$pkg" > /tmp/demo_without.txt 2>&1; echo "DEMO without change: exit $?"; grep -E "^(--- FAIL|FAIL|ok|PASS)" /tmp/demo_without.txt | head -5
rm -f "$demo"
