#!/bin/bash
# runs every claimed check (quick tier by default) on the current tree, rewriting the evidence files
cd /verif
tier=${1:-quick}
rc=0
for p in $(python3 -c "import json;print(' '.join(c['property_id'] for c in json.load(open('MANIFEST.json'))['checks']))"); do
  out=$(./bin/gvc check -p $p -tier $tier 2>&1); e=$?
  echo "$out" | grep -v "^KNOWN-FINDING" | tail -1
  [ $e -ne 0 ] && { echo "  -> exit $e"; echo "$out" | grep "VIOLATION\|failed" | head -5; rc=1; }
done
exit $rc
