#!/bin/sh
# Builds the verifier from files on disk only (offline).
set -e
cd "$(dirname "$0")"
export GOFLAGS=-mod=mod GOPROXY=off GOSUMDB=off GOTOOLCHAIN=local
mkdir -p bin evidence
go build -o bin/gvc ./cmd/gvc
# solvers present?
z3 --version >/dev/null
z3-new --version >/dev/null 2>&1 || true
cvc5 --version >/dev/null 2>&1 || true
echo setup ok
